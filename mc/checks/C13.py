"""C13 cached and carried-over hashes are never stale.

E2: all histories (to a depth) of file mutations under a logical clock
interleaved with every kind of hash query (state get / get_many / hash_file /
staging build / index md5 / index update from a previous index); every answer
compared with a cache-less recomputation at that instant.  Plus batch lookups
across the 999-parameter SQL boundary and forged entries.
"""

import itertools
import json
import os

from .. import ref
from ..lab import LFS, make_odb
from ..world import World, digest_obj, stamp, tick

# c2: CR LF text of c1's size (its legacy digest differs from its md5)
C = {"c1": b"aaaa", "c2": b"b\r\nb", "c3": b"cc", "big1": b"1" * (2**20 + 1), "big2": b"2" * (2**20 + 1)}
FILES = ["f1", "f2"]
US = 500  # logical clock step: half a microsecond - all mutations fall into the same second, and neighbouring
#           stamps share their microsecond (a token that rounds mtimes to microseconds would not tell them apart)


def alphabet():
    ops = []
    for f in FILES:
        for m in ("w1", "w2", "w3", "repl", "replm", "touch", "rm"):
            ops.append((m, f))
    for f in FILES:
        ops.append(("get", f))
        ops.append(("geti", f))
        ops.append(("hash", f))
        ops.append(("sv", f))
    ops += [("many",), ("build",), ("imd5",), ("update",)]
    # the previous index goes through its serialised form (as dvc keeps it between runs)
    ops += [("serial", "json"), ("serial", "db")]
    # other algorithms sharing the same state: a sha256 hash of the file, and the file added to a sha256 store
    ops += [("hash-sha256", "f1"), ("add-sha256", "f1")]
    # the legacy algorithm on the same state: staging into a md5-dos2unix store
    ops += [("build-legacy",)]
    # an in-place rewrite (same size, same inode) whose mtime lies before the epoch: -1 s, then -2 s, ...
    ops += [("wneg", "f1")]
    # a 12-byte write stamped X.5 s, and a 2-byte in-place rewrite stamped X.51 s: the decimal digits of
    # (mtime, size) read the same when written one after the other ("X.5"+"12" == "X.51"+"2")
    ops += [("w12", "f1"), ("wcat", "f1")]
    # a user write that lands *during* a library call, between hashing and recording
    ops += [("build-midwrite", "f1"), ("hash-midwrite", "f1"), ("imd5-midwrite", "f1")]
    return ops


MUT = {"w1", "w2", "w3", "repl", "replm", "touch", "rm", "wneg", "w12", "wcat"}


def cur(path):
    try:
        with open(path, "rb") as f:
            return ref.md5(f.read())
    except FileNotFoundError:
        return None


def run_history(hist, init):
    from dvc_data.hashfile.build import build
    from dvc_data.hashfile.hash import hash_file
    from dvc_data.hashfile.hash_info import HashInfo
    from dvc_data.hashfile.state import State
    from dvc_data.index import build as ibuild
    from dvc_data.index import md5 as imd5
    from dvc_data.index import update as iupdate

    viol = []
    _SHARED_INFOS = {}   # (see the 'many' operation)
    _NEG = [1 if init == "warm-neg" else 0]   # pre-epoch timestamps handed out so far
    answers = 0
    hits = 0
    with World() as w:
        ws = w.mkdir("ws")
        state = State(root_dir=w.root, tmp_dir=w.p("tmp"))
        odb = make_odb("local", w.p("odb"), state=state)
        paths = {f: os.path.join(ws, f) for f in FILES}
        paths["ln"] = os.path.join(ws, "ln")
        prev_idx = None

        def write(p, data):
            with open(p, "wb") as fh:
                fh.write(data)
            stamp(p, US)

        try:
            if init == "warm+link":
                # the staged directory also holds a symlink to f1
                os.symlink(paths["f1"], paths["ln"])
            if init == "big":
                # two files above the large-file threshold: staging hashes them in the pool
                write(paths["f1"], C["big1"])
                write(paths["f2"], C["big2"])
            if init == "warm12":
                # a 12-byte file stamped X.5 s is on record (see the w12 / wcat operations)
                from ..world import EPOCH_NS

                with open(paths["f1"], "wb") as fh:
                    fh.write(b"twelve bytes")
                os.utime(paths["f1"], ns=(EPOCH_NS + 500_000_000, EPOCH_NS + 500_000_000))
                hash_file(paths["f1"], LFS, "md5", state=state)
                prev_idx = imd5(ibuild(ws, LFS), state=state)
            if init in ("warm", "warm+link", "warm-neg"):
                write(paths["f1"], C["c1"])
                if init == "warm-neg":
                    os.utime(paths["f1"], ns=(-1_000_000_000, -1_000_000_000))   # a pre-epoch timestamp is on record
                hash_file(paths["f1"], LFS, "md5", state=state)
                idx0 = ibuild(ws, LFS)
                prev_idx = imd5(idx0, state=state)

            def answer(kind, f, value, i, op):
                nonlocal answers, hits
                answers += 1
                if value is None:
                    return
                hits += 1
                actual = cur(paths[f])
                if value != actual:
                    viol.append((f"stale-hash/{kind}",
                                 f"{f}: answered {value} but content hashes to {actual} at step {i} {op} of {hist} init={init}"))

            for i, op in enumerate(hist):
                k = op[0]
                if k in MUT:
                    p = paths[op[1]]
                    if k in ("w1", "w2", "w3"):
                        write(p, C["c" + k[1]])
                    elif k == "repl":
                        tmp = p + ".new"
                        with open(tmp, "wb") as fh:
                            fh.write(C["c2"])
                        os.rename(tmp, p)
                        stamp(p, US)
                    elif k == "replm":
                        # atomic replacement by different bytes of the same size carrying the *old* mtime:
                        # only the inode tells the difference
                        if os.path.exists(p):
                            st0 = os.stat(p)
                            old = open(p, "rb").read()
                            new = bytes((b + 1) % 256 for b in old) or b""
                            tmp = p + ".new"
                            with open(tmp, "wb") as fh:
                                fh.write(new)
                            os.utime(tmp, ns=(st0.st_mtime_ns, st0.st_mtime_ns))
                            os.rename(tmp, p)
                    elif k in ("w12", "wcat"):
                        from ..world import EPOCH_NS

                        if k == "w12" or os.path.exists(p):
                            mode_ = "r+b" if os.path.exists(p) else "wb"
                            with open(p, mode_) as fh:
                                fh.write(b"twelve bytes" if k == "w12" else b"2b")
                                fh.truncate()
                            ns_ = EPOCH_NS + (500_000_000 if k == "w12" else 510_000_000)
                            os.utime(p, ns=(ns_, ns_))
                    elif k == "wneg":
                        if os.path.exists(p):
                            old = open(p, "rb").read()
                            # strictly decreasing over the whole history: -1 s, -2 s, -3 s ... (an old timestamp is
                            # never restored, also not after a write with an ordinary timestamp in between)
                            _NEG[0] += 1
                            new_m = -_NEG[0] * 1_000_000_000
                            with open(p, "r+b") as fh:
                                fh.write(bytes((b + 5) % 256 for b in old))
                            os.utime(p, ns=(new_m, new_m))
                    elif k == "touch":
                        if os.path.exists(p):
                            stamp(p, US)
                    elif k == "rm":
                        if os.path.exists(p):
                            os.unlink(p)
                            if op[1] == "f1" and os.path.islink(paths["ln"]):
                                os.unlink(paths["ln"])  # no dangling link is left behind (staging refuses those)
                            tick(US)
                elif k in ("get", "geti"):
                    p = paths[op[1]]
                    info = None
                    if k == "geti" and os.path.exists(p):
                        info = LFS.info(p)
                    meta, hi = state.get(p, LFS, info=info)
                    val = hi.value if hi is not None and hi.name == "md5" else None
                    answer(k, op[1], val, i, op)
                    if meta is not None and os.path.exists(p) and meta.size != os.path.getsize(p):
                        viol.append(("stale-meta-size", f"{op} step {i} of {hist}"))
                    # single == batch
                    if os.path.exists(p):
                        infos = {p: LFS.info(p)}
                        (bp, bm, bh), = list(state.get_many([p], LFS, infos))
                        bval = bh.value if bh is not None and bh.name == "md5" else None
                        if bp != p or bval != val:
                            viol.append(("single-and-batch-lookup-disagree", f"{val} vs {bval} at step {i} of {hist}"))
                elif k == "hash":
                    p = paths[op[1]]
                    if os.path.exists(p):
                        _m, hi = hash_file(p, LFS, "md5", state=state)
                        answer("hash_file", op[1], hi.value, i, op)
                elif k == "hash-sha256":
                    p = paths[op[1]]
                    if os.path.exists(p):
                        import hashlib

                        _m, hi = hash_file(p, LFS, "sha256", state=state)
                        answers += 1
                        with open(p, "rb") as fh:
                            want = hashlib.sha256(fh.read()).hexdigest()
                        if hi.name != "sha256" or hi.value != want:
                            viol.append(("wrong-algorithm-or-value-for-sha256-request",
                                         f"{hi.name}:{hi.value} at step {i} of {hist} init={init}"))
                elif k == "add-sha256":
                    p = paths[op[1]]
                    if os.path.exists(p):
                        import hashlib

                        with open(p, "rb") as fh:
                            data = fh.read()
                        odb2 = make_odb("local", w.p("odb-sha256"), state=state, hash_name="sha256")
                        odb2.add(p, LFS, hashlib.sha256(data).hexdigest())
                        op_ = odb2.oid_to_path(hashlib.sha256(data).hexdigest())
                        _m, hi2 = state.get(op_, LFS)
                        answers += 1
                        if hi2 is not None and hi2.name == "md5" and hi2.value != ref.md5(data):
                            viol.append(("stale-hash/object-of-another-algorithm-served-as-md5",
                                         f"{hi2.value} at step {i} of {hist} init={init}"))
                        _m, hi3 = hash_file(op_, LFS, "md5", state=state)
                        if hi3.value != ref.md5(data):
                            viol.append(("stale-hash/hash_file-of-stored-object", f"{hi3.value} at step {i} of {hist}"))
                elif k == "build-legacy":
                    if any(os.path.exists(paths[f]) for f in FILES):
                        odbl = make_odb("local", w.p("odb-legacy"), state=state, hash_name="md5-dos2unix")
                        _s, _m, objl = build(odbl, ws, LFS, "md5-dos2unix", dry_run=True)
                        for key, _meta, hil in objl:
                            answers += 1
                            with open(paths[key[-1]], "rb") as fh:
                                wantl = ref.digest("md5-dos2unix", fh.read())
                            if hil.value != wantl:
                                viol.append(("stale-hash/legacy-staging-answered-with-another-algorithms-digest",
                                             f"{key[-1]}: {hil.value} != {wantl} at step {i} of {hist} init={init}"))
                elif k == "sv":
                    p = paths[op[1]]
                    if os.path.exists(p):
                        state.save(p, LFS, HashInfo("md5", cur(p)))
                elif k == "many":
                    ex = [paths[f] for f in FILES if os.path.exists(paths[f])]
                    infos = {p: LFS.info(p) for p in ex}
                    got = list(state.get_many(ex, LFS, infos))
                    if [g[0] for g in got] != ex:
                        viol.append(("batch-lookup-misaligned", f"{[g[0] for g in got]} vs {ex}"))
                    for p, _m, hi in got:
                        f = os.path.basename(p)
                        answer("get_many", f, hi.value if hi is not None and hi.name == "md5" else None, i, op)
                    # the same lookup with a mapping of known stat results that the caller keeps (and never fills):
                    # whatever the library looked up itself last time must not be remembered through it
                    got = list(state.get_many(ex, LFS, _SHARED_INFOS))
                    for p, _m, hi in got:
                        f = os.path.basename(p)
                        answer("get_many-kept-infos", f, hi.value if hi is not None and hi.name == "md5" else None, i, op)
                elif k == "build":
                    if any(os.path.exists(p) for p in paths.values()):
                        _s, _m, obj = build(odb, ws, LFS, "md5", dry_run=True)
                        for key, _meta, hi in obj:
                            answer("staging-build", key[-1], hi.value, i, op)
                elif k == "imd5":
                    idx = ibuild(ws, LFS)
                    prev_idx = imd5(idx, state=state)
                    for key, e in prev_idx.iteritems():
                        if e.hash_info is not None:
                            answer("index-md5", key[-1], e.hash_info.value, i, op)
                elif k.endswith("-midwrite"):
                    p = paths[op[1]]
                    if os.path.exists(p):
                        orig_many, orig_one = state.save_many, state.save
                        fired = []

                        def edit():
                            if not fired:
                                fired.append(1)
                                old = open(p, "rb").read()
                                write(p, bytes((b + 3) % 256 for b in old) or b"z")

                        def save_many(items, fs, _o=orig_many):
                            items = list(items)
                            edit()
                            return _o(items, fs)

                        def save(path, fs, hi, info=None, _o=orig_one):
                            edit()
                            return _o(path, fs, hi, info=info)

                        state.save_many, state.save = save_many, save
                        try:
                            if k == "build-midwrite":
                                build(odb, ws, LFS, "md5", dry_run=True)
                            elif k == "hash-midwrite":
                                hash_file(p, LFS, "md5", state=state, info=LFS.info(p))
                            else:
                                prev_idx = imd5(ibuild(ws, LFS), state=state)
                        finally:
                            state.save_many, state.save = orig_many, orig_one
                        # the answers of that call describe the file as it was when read; what matters is
                        # that nothing stale was *recorded*: ask again now
                        for f in FILES:
                            if os.path.exists(paths[f]):
                                _m, hi2 = state.get(paths[f], LFS)
                                answer("get-after-midwrite", f, hi2.value if hi2 is not None and hi2.name == "md5" else None, i, op)
                elif k == "serial":
                    if prev_idx is not None:
                        from dvc_data.index.serialize import read_db, read_json, write_db, write_json

                        sp = w.p(f"index-{i}.{op[1]}")
                        if op[1] == "json":
                            write_json(prev_idx, sp)
                            prev_idx = read_json(sp)
                        else:
                            write_db(prev_idx, sp)
                            prev_idx = read_db(sp)
                elif k == "update":
                    if prev_idx is not None:
                        new = ibuild(ws, LFS)
                        iupdate(new, prev_idx)
                        for key, e in new.iteritems():
                            if e.hash_info is not None and e.hash_info.value:
                                answer("index-update", key[-1], e.hash_info.value, i, op)
        finally:
            state.close()
    return viol, answers, hits


def run_case(case):
    res = {"n": 0, "trans": 0, "states": [], "outcomes": set(), "nontrivial": set(), "viol": [],
           "vac": {"answers": 0, "hits": 0}}
    sigs = set()
    ops = alphabet()
    prefix = [tuple(o) for o in case["prefix"]]
    for rest in itertools.product(ops, repeat=case["depth"] - len(prefix)):
        hist = prefix + list(rest)
        nm = sum(1 for o in hist if o[0] in MUT)
        if nm == 0 or nm == len(hist):
            # no mutation / no query: nothing can be stale (still counted as explored space)
            pass
        viol, answers, hits = run_history(hist, case["init"])
        res["n"] += 1
        res["trans"] += len(hist)
        res["vac"]["answers"] += answers
        res["vac"]["hits"] += hits
        d = digest_obj((case["init"], hist))
        res["states"].append(d)
        if hits and nm:
            res["nontrivial"].add(d)
        res["outcomes"].add((answers > 0, hits > 0, bool(viol)))
        for sig, detail in viol:
            if sig not in sigs:
                sigs.add(sig)
                res["viol"].append((sig, detail, {"part": "hist", "init": case["init"], "hist": [list(o) for o in hist]}))
    res["outcomes"] = sorted(map(repr, res["outcomes"]))
    res["nontrivial"] = sorted(res["nontrivial"])
    res["sample"] = {"init": case["init"], "history_prefix": case["prefix"], "depth": case["depth"]}
    return res


def batch_case(case):
    from dvc_data.hashfile.hash_info import HashInfo
    from dvc_data.hashfile.state import State

    res = {"n": 0, "trans": 0, "states": [], "outcomes": set(), "nontrivial": set(), "viol": [],
           "vac": {"batch_lookups": 0, "batch_hits": 0}}
    n = case["n"]
    with World() as w:
        ws = w.mkdir("ws")
        state = State(root_dir=w.root, tmp_dir=w.p("tmp"))
        try:
            paths = []
            for i in range(n):
                p = os.path.join(ws, f"f{i:05d}")
                with open(p, "wb") as fh:
                    fh.write(b"%d" % i)
                stamp(p, 1000)
                paths.append(p)
            infos = {p: LFS.info(p) for p in paths}
            state.save_many(((p, HashInfo("md5", ref.md5(b"%d" % i)), infos[p]) for i, p in enumerate(paths)), LFS)
            edge = sorted({0, 1, 997, 998, 999, 1000, 1001, 1997, 1998, n - 1} & set(range(n)))
            for mutate in ([], edge):
                for i in mutate:
                    with open(paths[i], "wb") as fh:
                        fh.write(b"changed-%d" % i)
                    stamp(paths[i])
                infos = {p: LFS.info(p) for p in paths}
                for order in ("fwd", "rev"):
                    q = paths if order == "fwd" else list(reversed(paths))
                    got = list(state.get_many(q, LFS, infos))
                    res["n"] += 1
                    res["trans"] += len(q)
                    res["vac"]["batch_lookups"] += 1
                    res["states"].append(digest_obj((n, bool(mutate), order)))
                    res["nontrivial"].add(digest_obj((n, bool(mutate), order)))
                    sub = {"part": "batch", "n": n}
                    if [g[0] for g in got] != q:
                        res["viol"].append(("batch-lookup-misaligned", f"n={n} order={order}", sub))
                        continue
                    for p, meta, hi in got:
                        if hi is None:
                            continue
                        res["vac"]["batch_hits"] += 1
                        with open(p, "rb") as fh:
                            actual = ref.md5(fh.read())
                        if hi.value != actual:
                            res["viol"].append(("stale-hash/get_many-batch", f"n={n} {os.path.basename(p)} mutate={bool(mutate)}", sub))
                            break
                        s1 = state.get(p, LFS)
                        if (s1[1].value if s1[1] else None) != hi.value:
                            res["viol"].append(("single-and-batch-lookup-disagree", f"n={n} {os.path.basename(p)}", sub))
                            break
                    nhit = sum(1 for g in got if g[2] is not None)
                    if nhit != n - len(mutate):
                        res["viol"].append(("batch-lookup-loses-valid-entries", f"n={n} hits={nhit} expected={n - len(mutate)}", sub))
        finally:
            state.close()
    res["nontrivial"] = sorted(res["nontrivial"])
    return res


def forged_case(case):
    from dvc_objects.fs import MemoryFileSystem

    from dvc_data.hashfile.build import _get_hashes
    from dvc_data.hashfile.hash import hash_file
    from dvc_data.hashfile.hash_info import HashInfo
    from dvc_data.hashfile.state import State, _checksum

    res = {"n": 0, "trans": 0, "states": [], "outcomes": set(), "nontrivial": set(), "viol": [],
           "vac": {"forged_checks": 0}}
    sub = {"part": "forged"}
    with World() as w:
        ws = w.mkdir("ws")
        state = State(root_dir=w.root, tmp_dir=w.p("tmp"))
        try:
            p = os.path.join(ws, "f")
            with open(p, "wb") as fh:
                fh.write(b"data")
            stamp(p)
            actual = ref.md5(b"data")
            info = LFS.info(p)
            # (1) entry recorded for another algorithm must not be used as an md5 answer
            for other in ("sha256", "md5-dos2unix", "etag"):
                state.save(p, LFS, HashInfo(other, "f" * 32))
                _m, hi = hash_file(p, LFS, "md5", state=state)
                res["n"] += 1
                res["vac"]["forged_checks"] += 1
                if hi.name != "md5" or hi.value != actual:
                    res["viol"].append((f"entry-of-other-algorithm-returned/{other}/hash_file", f"{hi}", sub))
                state.save(p, LFS, HashInfo(other, "f" * 32))
                got = _get_hashes([p], LFS, "md5", {p: LFS.info(p)}, state=state)
                if got[p][1].name != "md5" or got[p][1].value != actual:
                    res["viol"].append((f"entry-of-other-algorithm-returned/{other}/staging", f"{got[p][1]}", sub))
            # (2) entry written by a newer format version must be a miss
            for ver in (2, 99):
                raw = json.dumps({"version": ver, "checksum": _checksum(info), "size": info["size"],
                                  "hash_info": {"md5": "e" * 32}})
                state.hashes[p] = raw
                meta, hi = state.get(p, LFS)
                (bp, bm, bh), = list(state.get_many([p], LFS, {p: info}))
                res["n"] += 1
                res["vac"]["forged_checks"] += 1
                if hi is not None or bh is not None:
                    res["viol"].append(("entry-of-newer-version-returned", f"version={ver} {hi} {bh}", sub))
            # (3) non-local file system never hits, never records
            state.save(p, LFS, HashInfo("md5", actual))
            m = MemoryFileSystem(global_store=False)
            m.pipe_file(p, b"other-bytes")
            meta, hi = state.get(p, m)
            many = list(state.get_many([p], m, {p: m.info(p)}))
            res["n"] += 1
            res["vac"]["forged_checks"] += 1
            if hi is not None or many[0][2] is not None:
                res["viol"].append(("non-local-filesystem-got-a-hit", f"{hi} {many}", sub))
            m.pipe_file("/only-in-mem", b"zzz")
            state.save("/only-in-mem", m, HashInfo("md5", "d" * 32))
            state.save_many([("/only-in-mem", HashInfo("md5", "d" * 32), None)], m)
            if state.hashes.get("/only-in-mem"):
                res["viol"].append(("non-local-filesystem-entry-recorded", "", sub))
            # (4) corrupt row is a miss
            state.hashes[p] = "{not json"
            if state.get(p, LFS)[1] is not None:
                res["viol"].append(("corrupt-row-returned", "", sub))
        finally:
            state.close()
    res["states"] = [digest_obj("forged")]
    res["nontrivial"] = [digest_obj("forged"), digest_obj("forged2")]
    return res


def run_case_any(case):
    return {"hist": run_case, "batch": batch_case, "forged": forged_case}[case["part"]](case)


def replay(case):
    if case["part"] == "hist":
        return run_history([tuple(o) for o in case["hist"]], case["init"])[0]
    r = run_case_any(case)
    return [(s, d) for s, d, _ in r["viol"]]


def run(ctx):
    depth = 4 if ctx.tier == "thorough" else 3
    ops = alphabet()
    ctx.rule = (
        f"E2: every history of length {depth} over {len(ops)} operations on 2 files (write c1 / c2 same size / "
        "c3 other size, atomic replace, atomic replace keeping size and mtime, touch, delete, a write landing inside a build / hash_file / index md5 call between hashing and recording; state.get with/without caller info, get_many, hash_file, "
        "state.save, dry staging build, index build+md5, index update from the previous index, the previous index "
        "going through write_json/read_json or write_db/read_db) from a cold, a warm and a warm initial state "
        "whose directory also holds a symlink to f1, under a strictly increasing logical clock; batch lookups of "
        "{1,2,998,999,1000,1001,1999} paths in both orders with entries invalidated at the chunk edges; forged "
        "entries (other algorithm, newer version, non-local fs, corrupt row); non-trivial = history with a "
        "mutation and at least one cache hit"
    )
    ctx.bound = {"depth": depth, "operations": len(ops), "files": FILES, "contents": {k: v.decode() for k, v in C.items()}}
    ctx.assumptions = [
        "every harness mutation advances the logical mtime clock, so a history never restores an old "
        "(inode, mtime, size) with new content (outside the property)",
        "a miss is always acceptable; only answers (hits / computed hashes) are compared",
    ]
    ctx.require("answers", "hits", "batch_lookups", "batch_hits", "forged_checks")
    cs = []
    for init in ("cold", "warm", "warm+link"):
        d_i = 3 if init == "warm+link" else depth   # (the symlink initial state stays at depth 3 in both tiers)
        for a in ops:
            for b in (ops if d_i >= 4 else [None]):
                pre = [list(a)] + ([list(b)] if b else [])
                cs.append({"part": "hist", "init": init, "prefix": pre, "depth": d_i})
    for b in ops:
        cs.append({"part": "hist", "init": "warm12", "prefix": [["wcat", "f1"], list(b)], "depth": max(depth, 3)})
    # a pre-epoch mtime on record: histories that start with another pre-epoch in-place rewrite
    for b in ops:
        cs.append({"part": "hist", "init": "warm-neg", "prefix": [["wneg", "f1"], list(b)], "depth": max(depth, 3)})
    # two large files (the hashing pool): histories that start with a staging / hashing call
    for a in (("build-midwrite", "f1"), ("build",), ("imd5-midwrite", "f1")):
        for b in ops:
            cs.append({"part": "hist", "init": "big", "prefix": [list(a), list(b)], "depth": max(depth, 3)})
    for n in (1, 2, 998, 999, 1000, 1001, 1999):
        cs.append({"part": "batch", "n": n})
    cs.append({"part": "forged"})
    ctx.run_cases("run_case_any", cs, chunksize=1, det=3)
