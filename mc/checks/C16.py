"""C16 concurrent writers cannot corrupt a shared store or state database.

E5: 2 (thorough: also 3) writers staging and transferring overlapping content
into one local store while sharing one hash-state database; real threads
(shared odb + State objects) and real processes; every schedule with at most
`bound` preemptions at file-system-operation boundaries is executed.
"""

import json
import os

ISOLATE = False  # every case already runs in its own forked child (run_case / probe)

from .. import ref
from ..lab import CONTENTS, LFS, MD5, make_odb
from ..sched import HarnessError, ProcSched, ThreadSched, explore, read_point
from ..world import World, digest_obj, objects_only, store_snapshot, write_tree

WORKLOADS = {
    "identical": [{"a": "x", "s/b": "y"}, {"a": "x", "s/b": "y"}],
    "overlap": [{"a": "x", "b": "y"}, {"a": "x", "c": "z"}],
    "twopaths": [{"p": "w", "q": "w"}, {"r": "w", "a": "x"}],
    "three": [{"a": "x", "b": "y"}, {"a": "x", "c": "z"}, {"c": "z", "d": "y"}],
    "swapped": [{"a": "x", "b": "y"}, {"a": "y", "b": "x"}],   # same names, same contents, crossed
    # two files above the large-file threshold per writer: they are hashed by the pool
    "big": [{"L1": "big1", "L2": "big2", "a": "x"}, {"L1": "big2", "L2": "big1", "c": "x"}],
}


BIGC = {"big1": b"1" * (2**20 + 1), "big2": b"2" * (2**20 + 1)}
CONTENTS = dict(CONTENTS, **BIGC)
MD5 = dict(MD5, **{k: ref.md5(v) for k, v in BIGC.items()})
from ..lab import BULK, BULK_MD5, BULK_N  # noqa: E402

CONTENTS.update(BULK)
MD5.update(BULK_MD5)
for _c in ("x", "y", "z"):
    # the same-size rewrite of a content (used by the restaging writers)
    CONTENTS[_c + "~"] = bytes((b + 1) % 256 for b in CONTENTS[_c])
    MD5[_c + "~"] = ref.md5(CONTENTS[_c + "~"])
CONTENTS["brackets"] = b"[]"
MD5["brackets"] = ref.md5(b"[]")
# an empty directory (its directory object is the listing []) next to a writer staging a file whose content is "[]";
# a directory whose name contains a backslash next to the nested directory it would read as
WORKLOADS["emptydir"] = [{}, {"a": "brackets", "b": "x"}]
WORKLOADS["backslash"] = [{"s\\c/f": "x", "s/c/f": "y"}, {"s\\c/f": "x", "a": "z"}]
# 1001 files per writer in one directory (beyond the 999-parameter SQL batches of the state database), 700 shared
WORKLOADS["bulk"] = [{f"f{i:04d}": f"bulk{i}" for i in range(1001)},
                     {f"f{i:04d}": f"bulk{i + BULK_N - 1001}" for i in range(1001)}]


def listing(tree):
    return {r: MD5[c] for r, c in tree.items()}


_SEAMED = [False]
ERRORS = {}


def install_read_seam():
    """Wrap the stat helper the local store uses for existence / integrity checks."""
    if _SEAMED[0]:
        return
    import dvc_data.hashfile.db.local as L

    orig = L._localfs_info

    def info(path):
        read_point(path)
        return orig(path)

    L._localfs_info = info
    _SEAMED[0] = True


_READS = {"installed": False, "on": False}


class _ReadPointFile:
    """A binary file whose every read / readinto is followed by a scheduling point: the reader parks with
    the data it just obtained (in its own bytes object, or in whatever buffer it handed in)."""

    def __init__(self, f, path):
        self._f = f
        self._path = path

    def read(self, *a):
        data = self._f.read(*a)
        read_point(self._path + "#read")
        return data

    def readinto(self, b):
        n = self._f.readinto(b)
        read_point(self._path + "#readinto")
        return n

    def __enter__(self):
        return self

    def __exit__(self, *a):
        self._f.close()

    def __iter__(self):
        return iter(self._f)

    def __getattr__(self, name):
        return getattr(self._f, name)


def install_data_read_seam():
    """Reads of workspace files through the shared file-system object become scheduling points."""
    if _READS["installed"]:
        return
    orig = LFS.open

    def open_(path, mode="r", **kw):
        f = orig(path, mode=mode, **kw)
        if _READS["on"] and "r" in mode and "b" in mode:
            return _ReadPointFile(f, path)
        return f

    LFS.open = open_
    _READS["installed"] = True


def writer_fn(root, wi, tree, shared_objs, first, upload=False, trail=False, restage=False):
    """Returns a callable performing writer wi's stage + transfer."""

    def fn():
        from dvc_data.hashfile.build import build
        from dvc_data.hashfile.state import State
        from dvc_data.hashfile.transfer import transfer

        from ..xfer import install_order_seam

        if shared_objs is not None:
            odb = shared_objs["odb"]
            state = None
        else:
            state = State(root_dir=root, tmp_dir=os.path.join(root, "tmp"))
            odb = make_odb("local", os.path.join(root, "odb"), state=state)
        if first:
            install_order_seam([first])
        import errno as _errno
        import threading

        import dvc_data.hashfile.transfer as T

        errs = ERRORS.setdefault(threading.get_ident(), [])
        del errs[:]

        def _rec(oid, exc):
            if isinstance(exc, OSError) and exc.errno == _errno.EMFILE:
                raise exc
            name = _errno.errorcode.get(getattr(exc, "errno", None), type(exc).__name__)
            ERRORS.setdefault(threading.get_ident(), []).append([oid, name])

        T._log_exception = _rec
        try:
            wsp = os.path.join(root, f"ws{wi}") + (os.sep if trail else "")   # same directory, other spelling
            staging, _m, obj = build(odb, wsp, LFS, "md5", upload=upload)
            res = transfer(staging, odb, {obj.hash_info}, shallow=False, hardlink=False)
            if restage and "a" in tree:
                # the user rewrites file a in place (same size, same inode, half a microsecond later) and stages again
                pa = os.path.join(root, f"ws{wi}", "a")
                ns0 = os.stat(pa).st_mtime_ns
                with open(pa, "r+b") as fh:
                    fh.write(CONTENTS[tree["a"] + "~"])
                os.utime(pa, ns=(ns0 + 500, ns0 + 500))
                staging, _m, obj = build(odb, wsp, LFS, "md5", upload=upload)
                res = transfer(staging, odb, {obj.hash_info}, shallow=False, hardlink=False)
        finally:
            if state is not None:
                state.close()
        return {"oid": obj.oid, "failed": sorted(h.value for h in res.failed),
                "transferred": len(res.transferred),
                "errors": list(ERRORS.get(threading.get_ident(), []))}

    return fn


def one_schedule(cfg, choices):
    """Run one schedule on a fresh world; returns (trace, observation dict)."""
    from dvc_data.hashfile.state import State

    trees = WORKLOADS[cfg["workload"]]
    install_read_seam()
    import dvc_data.hashfile.build as _B

    from . import C03 as _C03

    if cfg.get("pool"):
        # the hashing pool hands its results back in a chosen completion order
        _B.ThreadPoolExecutor = _C03.PermExec
        _C03._PERM.update(order=[1, 0] if cfg["pool"] == "reversed" else [0, 1], used=0, sizes=[])
    from .. import sched as _sched

    if cfg.get("sql"):
        _sched.install_sql_seam()
    _sched._SQL["on"] = bool(cfg.get("sql"))
    if cfg.get("reads"):
        install_data_read_seam()
    _READS["on"] = bool(cfg.get("reads"))
    with World() as w:
        root = w.root
        for i, t in enumerate(trees):
            os.makedirs(w.p(f"ws{i}"), exist_ok=True)
            write_tree(w.p(f"ws{i}"), {r: CONTENTS[c] for r, c in t.items()})
        os.makedirs(w.p("tmp"), exist_ok=True)
        shared = [w.p("odb"), w.p("tmp")]
        obs = {"viol": []}
        if cfg["mode"] == "threads":
            state = State(root_dir=root, tmp_dir=w.p("tmp"))
            odb = make_odb("local", w.p("odb"), state=state)
            fns = [writer_fn(root, i, t, {"odb": odb}, cfg.get("first"), cfg.get("upload", False), cfg.get("trail", False), cfg.get("restage", False))
                   for i, t in enumerate(trees)]
            fine = [w.p(f"ws{i}") for i in range(len(trees))] if cfg.get("fine") or cfg.get("reads") else []
            # reads pass: only the workspaces' events and data reads are points (the phases that touch the
            # shared directories are covered by the other passes)
            sched = ThreadSched(fns, choices, [] if cfg.get("reads") else shared, fine=fine)
            try:
                trace, results = sched.run()
            except HarnessError as e:
                obs["viol"].append((f"deadlock-or-hang/{cfg['mode']}", str(e)))
                trace, results = sched.trace, sched.results
            finally:
                from ..xfer import remove_order_seam

                remove_order_seam()
                state.close()
        else:
            os.makedirs(w.p("odb"), exist_ok=True)
            fns = [writer_fn(root, i, t, None, cfg.get("first"), cfg.get("upload", False), cfg.get("trail", False),
                             cfg.get("restage", False))
                   for i, t in enumerate(trees)]
            sched = ProcSched(fns, choices, shared)
            try:
                trace, results = sched.run()
            except HarnessError as e:
                obs["viol"].append((f"deadlock-or-hang/{cfg['mode']}", str(e)))
                trace, results = sched.trace, [None] * len(trees)
        # ---- oracle
        snap = objects_only(store_snapshot(w.p("odb")))
        if cfg.get("restage"):
            trees = [dict(t, a=t["a"] + "~") if "a" in t else t for t in trees]
        for i, (t, r) in enumerate(zip(trees, results)):
            if r is None:
                continue
            if r[0] != "ok":
                kind = "permission-denied" if "Permission" in r[1] or "EACCES" in r[1] else "other"
                obs["viol"].append((f"writer-raised/{kind}", f"writer {i}: {r[1]} {r[2][-300:] if len(r) > 2 else ''}"))
                continue
            out = r[1]
            lst = listing(t)
            priv = "caps-dropped" if cfg["caps"] else "as-invoked"
            others = set()
            for j, t2 in enumerate(trees):
                if j != i:
                    others |= set(listing(t2).values()) | {ref.tree_oid(listing(t2))}
            if out["failed"]:
                errnames = sorted({e[1] for e in out.get("errors", [])}) or ["unknown"]
                files_failed = [o for o in out["failed"] if not o.endswith(".dir")]
                share = "shared-object" if files_failed and all(o in others for o in files_failed) else "own-object"
                obs["viol"].append((f"writer-reported-failed-objects/{priv}/{share}/{'+'.join(errnames)}",
                                    f"writer {i}: failed={[o[:10] for o in out['failed']]} errors={out.get('errors')}"))
            if out["oid"] != ref.tree_oid(lst):
                obs["viol"].append(("writer-staged-wrong-identifier", f"writer {i}: {out['oid']}"))
            manifest = {h: CONTENTS[c] for (rel, c), h in zip(t.items(), lst.values())}
            manifest[ref.tree_oid(lst)] = ref.tree_bytes(lst)
            for oid, data in manifest.items():
                if oid not in snap:
                    why = "dir-withheld-after-failed-file" if oid.endswith(".dir") and out["failed"] else "other"
                    obs["viol"].append((f"requested-object-missing-afterwards/{priv}/{why}", f"writer {i}: {oid[:10]}"))
                elif snap[oid][0] != data:
                    obs["viol"].append(("requested-object-has-wrong-bytes", f"writer {i}: {oid[:10]} {snap[oid][0][:20]!r}"))
        for oid, (data, mode) in snap.items():
            if not isinstance(data, bytes) or ref.md5(data) != oid.split(".")[0]:
                obs["viol"].append(("object-does-not-match-its-name", f"{oid[:10]}"))
        # state rows that are valid must tell the truth
        st = State(root_dir=root, tmp_dir=w.p("tmp"))
        try:
            for oid, (data, _m) in snap.items():
                p = os.path.join(w.p("odb"), oid[:2], oid[2:])
                _meta, hinfo = st.get(p, LFS)
                if hinfo is not None and isinstance(data, bytes) and hinfo.value.split(".")[0] != ref.md5(data):
                    obs["viol"].append(("stale-state-row-for-object", oid[:10]))
        finally:
            st.close()
        obs["outcome"] = digest_obj((sorted((o, ref.md5(d) if isinstance(d, bytes) else str(d), m)
                                            for o, (d, m) in snap.items()),
                                     [(r[0], (r[1]["oid"], r[1]["failed"]) if r[0] == "ok" else r[1][:40])
                                      if r else None for r in results]))
        obs["npoints"] = len(trace)
        obs["labels"] = [t[2] for t in trace]
    return trace, obs


def explore_shard(cfg, first_dev, bound):
    res = {"n": 0, "trans": 0, "states": [], "outcomes": set(), "nontrivial": set(), "viol": [],
           "vac": {"schedules": 0, "preempted_schedules": 0, "adjacent_conflicts": 0}}
    sigs = set()

    def run_one(choices):
        return one_schedule(cfg, choices)

    for choices, trace, obs in explore(run_one, bound, first_dev=first_dev):
        res["n"] += 1
        res["trans"] += len(trace)
        res["vac"]["schedules"] += 1
        tl = digest_obj([t[2] for t in trace])
        res["states"].append(tl)
        if any(t[3] and t[1] > 0 for t in trace):
            res["vac"]["preempted_schedules"] += 1
            res["nontrivial"].add(tl)
        labs = [t[2] for t in trace]
        for a, b in zip(labs, labs[1:]):
            if a[:2] != b[:2] and a.split(" ")[-1] == b.split(" ")[-1] and "odb:" in a:
                res["vac"]["adjacent_conflicts"] += 1
                break
        res["outcomes"].add(obs.get("outcome"))
        res.setdefault("examples", {}).setdefault(obs.get("outcome"), choices)
        if "schedule_sample" not in res and any(t[3] and t[1] > 0 for t in trace):
            res["schedule_sample"] = {"choices": choices, "points": [t[2] for t in trace][:60]}
        for sig, detail in obs["viol"]:
            if sig not in sigs:
                sigs.add(sig)
                res["viol"].append((sig, f"{detail} schedule={choices}", {"cfg": cfg, "choices": choices}))
    res["outcomes"] = sorted(o for o in res["outcomes"] if o)
    res["nontrivial"] = sorted(res["nontrivial"])
    return res


def _in_child(fn, drop_caps):
    """Run fn() in a forked child (optionally with capabilities dropped); return its JSON result."""
    r, wfd = os.pipe()
    pid = os.fork()
    if pid == 0:
        code = 0
        try:
            os.close(r)
            if drop_caps:
                from ..world import drop_privileges

                drop_privileges()
            out = fn()
            out["outcomes"] = list(out["outcomes"])
            data = json.dumps(out, default=list).encode()
            with os.fdopen(wfd, "wb") as f:
                f.write(data)
        except BaseException:  # noqa: BLE001
            import traceback

            code = 3
            try:
                with os.fdopen(wfd, "wb") as f:
                    f.write(json.dumps({"harness_error": traceback.format_exc()[-2000:]}).encode())
            except Exception:  # noqa: BLE001
                pass
        finally:
            os._exit(code)
    os.close(wfd)
    chunks = []
    try:
        with os.fdopen(r, "rb") as f:
            chunks.append(f.read())
        os.waitpid(pid, 0)
    except BaseException:
        try:
            os.kill(pid, 9)
            os.waitpid(pid, 0)
        except OSError:
            pass
        raise
    return json.loads(b"".join(chunks) or b'{"harness_error": "child produced no output"}')


def run_case(case):
    cfg = case["cfg"]

    def work():
        return explore_shard(cfg, case["first_dev"], case["bound"])

    res = _in_child(work, cfg["caps"])
    if "viol" in res:
        res["viol"] = [tuple(v) for v in res["viol"]]
    if case["first_dev"] == -1:
        res["sample"] = {"cfg": cfg, "default_schedule_points": res.get("trans")}
    elif case["first_dev"] == 3 and res.get("schedule_sample"):
        res["sample"] = {"cfg": cfg, "one_preempted_schedule": res["schedule_sample"]}
    return res


def probe(case):
    """Number of scheduling points of the default schedule (to shard the exploration)."""
    cfg = case["cfg"]

    def work():
        trace, obs = one_schedule(cfg, [])
        return {"npoints": len(trace), "labels": [t[2] for t in trace][:80], "outcomes": []}

    return _in_child(work, cfg["caps"])


def replay(case):
    cfg = case["cfg"]
    if "pair" in case:
        def both():
            outs = [one_schedule(cfg, ch)[1].get("outcome") for ch in case["pair"]]
            return {"outs": outs, "outcomes": []}

        r = _in_child(both, cfg["caps"])
        if len(set(r.get("outs", []))) > 1:
            kind = "caps-dropped" if cfg["caps"] else "as-invoked"
            return [(f"outcome-depends-on-schedule/{kind}", f"outcomes {r['outs']} for schedules {case['pair']}")]
        return []

    def work():
        trace, obs = one_schedule(cfg, case["choices"])
        return {"viol": obs["viol"], "labels": obs.get("labels"), "outcomes": []}

    r = _in_child(work, cfg["caps"])
    for lab in (r.get("labels") or []):
        pass
    return [tuple(v) for v in r.get("viol", [])]


def configs(tier):
    wl = ["identical", "overlap", "twopaths"]
    for mode in ("threads", "procs"):
        for name in wl:
            trees = WORKLOADS[name]
            objs = sorted({MD5[c] for t in trees for c in t.values()})
            firsts = [None, objs[0]] if tier != "thorough" else [None] + objs
            for first in firsts:
                for caps in (False, True):
                    deep = name == "overlap" and first is None
                    if tier == "thorough":
                        b = (3 if deep else 2) if mode == "threads" else 2
                    else:
                        b = (2 if deep else 1) if mode == "threads" else 1
                    yield {"workload": name, "mode": mode, "first": first, "caps": caps}, b
    if tier == "thorough":
        for mode in ("threads", "procs"):
            yield {"workload": "three", "mode": mode, "first": None, "caps": False}, (2 if mode == "threads" else 1)
    else:
        yield {"workload": "three", "mode": "threads", "first": None, "caps": False}, 1
    # upload staging: files are first uploaded to temporary names inside the shared store
    for mode in ("threads", "procs"):
        for name in ("overlap", "swapped"):
            yield {"workload": name, "mode": mode, "first": None, "caps": False, "upload": True}, \
                (2 if tier == "thorough" and mode == "threads" else 1)
    yield {"workload": "swapped", "mode": "threads", "first": None, "caps": False}, 1
    # hashing pool: large files, results in natural and in reversed completion order
    for pool in ("natural", "reversed"):
        for mode in ("threads", "procs"):
            yield {"workload": "big", "mode": mode, "first": None, "caps": False, "pool": pool}, 1
    # SQL pass: statements on the shared state database (outside transactions) are scheduling points too
    for mode in ("threads", "procs"):
        for name in ("identical", "overlap"):
            yield {"workload": name, "mode": mode, "first": None, "caps": False, "sql": True}, \
                (2 if (mode == "threads" or tier == "thorough") else 1)
    # fine-grained pass: events on the writers' private workspaces are scheduling points too, so that the
    # staging phases (which touch only memory and private files) interleave as well
    for name in wl:
        yield {"workload": name, "mode": "threads", "first": None, "caps": False, "fine": True}, \
            (2 if tier == "thorough" else 1)


def _extra_cfgs(tier):
    # the workspace spelled with a trailing separator (nested tree)
    for mode in ("threads", "procs"):
        yield {"workload": "identical", "mode": mode, "first": None, "caps": False, "trail": True}, 1
    # 1001 files per writer: only the schedule without preemptions (one writer after the other), which already
    # crosses the state database's 999-parameter batches with a non-empty table
    for mode in ("threads", "procs"):
        yield {"workload": "bulk", "mode": mode, "first": None, "caps": False}, 0
    # writers that rewrite a file in place right after staging it and stage again
    for mode in ("threads", "procs"):
        yield {"workload": "overlap", "mode": mode, "first": None, "caps": False, "restage": True}, 1
    # special values: an empty directory, a backslash in a directory name
    for name in ("emptydir", "backslash"):
        yield {"workload": name, "mode": "threads", "first": None, "caps": False}, 1


def _reads_cfgs(tier):
    # data-read pass: a writer can be preempted right after each read of a workspace file (hashing is the
    # only consumer), so that buffers shared between hashing calls would show
    for name in ("swapped", "overlap"):
        yield {"workload": name, "mode": "threads", "first": None, "caps": False, "reads": True}, \
            (3 if tier == "thorough" else 2)


def run(ctx):
    ctx.rule = (
        "E5: workloads {identical trees, overlapping files, one content under two paths} with 2 writers "
        "(+ 3 pairwise-overlapping writers) x {threads sharing odb and State, forked processes} x which object "
        "is first in an add batch x privilege {as invoked, capabilities dropped}; every schedule with at most "
        "`bound` preemptions at scheduling points = file-system events on the shared store/state directories "
        "(audit hook) + the store's stat helper; non-trivial = schedule with >= 1 preemption"
    )
    ctx.assumptions = [
        "between scheduling points exactly one writer runs; preemption inside C extensions (sqlite, hashlib) is "
        "not modelled and trusted to their own locking",
        "events on a writer's private workspace are not points (they commute with everything) except in the "
        "fine-grained pass, where they are, so that the memory-only staging phases interleave too",
        "in-memory shared state (ObjectDB._dirs, staging url cache, memfs) is only interleaved at these points",
        "SQL pass: a writer is never parked inside a database transaction (statements after BEGIN are not points)",
        "data-read pass: every read()/readinto() of a workspace file through the file-system object is followed "
        "by a scheduling point (and only workspace events are points in that pass)",
    ]
    ctx.require("schedules", "preempted_schedules", "adjacent_conflicts")
    cfgs = list(configs(ctx.tier)) + list(_reads_cfgs(ctx.tier)) + list(_extra_cfgs(ctx.tier))
    ctx.bound = {"configs": len(cfgs),
                 "preemption_bound": {json.dumps(c, sort_keys=True): b for c, b in cfgs}}
    probes = {}
    for case, res in ctx.pmap("probe", [{"cfg": c} for c, _b in cfgs], 1):
        if "harness_error" in res:
            ctx.harness_errors.append((case, res["harness_error"]))
            continue
        probes[json.dumps(case["cfg"], sort_keys=True)] = res["npoints"]
    cs = []
    for cfg, b in cfgs:
        n = probes.get(json.dumps(cfg, sort_keys=True), 0)
        for fd in range(-1, n if b > 0 else min(n, 1)):
            cs.append({"cfg": cfg, "first_dev": fd, "bound": b})
    ctx.extra["scheduling_points_default_schedule"] = {json.dumps(c, sort_keys=True): probes.get(json.dumps(c, sort_keys=True)) for c, _b in cfgs}
    # one distinct outcome per configuration over all schedules
    per_cfg = {}
    examples = {}
    first = {}
    for case, res in ctx.pmap("run_case", cs, 1):
        ctx.absorb(case, res)
        k = json.dumps(case["cfg"], sort_keys=True)
        per_cfg.setdefault(k, set()).update(res.get("outcomes") or [])
        for o, ch in (res.get("examples") or {}).items():
            examples.setdefault(k, {}).setdefault(o, ch)
        if case["first_dev"] in (-1, 0):
            first[json.dumps(case, sort_keys=True)] = res
    for k, outs in per_cfg.items():
        if len(outs) > 1:
            ex = sorted(examples.get(k, {}).items())[:2]
            kind = "caps-dropped" if json.loads(k)["caps"] else "as-invoked"
            ctx.violation(f"outcome-depends-on-schedule/{kind}",
                          {"cfg": json.loads(k), "pair": [e[1] for e in ex]},
                          f"{len(outs)} distinct final outcomes over the explored schedules of {k}; e.g. schedules {ex}")
    ctx.extra["distinct_outcomes_per_config"] = {k: len(v) for k, v in per_cfg.items()}
    det = [c for c in cs if c["first_dev"] in (-1, 0)][:6]
    ctx.determinism("run_case", det, first)
