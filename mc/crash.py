"""E4 crash-point enumerator.

A scenario is a function `body(root, cfg, phase)`; it is executed in forked
children.  `sys.addaudithook` sees every Python-level file-system mutation
under the world root *before* it executes; the child is killed with
os._exit(137) when event n is about to execute (= after event n-1 took effect),
or in the middle of the k-th byte copy.
"""

import json
import os
import shutil
import sys
import traceback

_M = {"on": False, "root": None, "count": 0, "crash_at": None, "events": None, "half_at": None,
      "copies": 0}

_WRITE_FLAGS = os.O_WRONLY | os.O_RDWR | os.O_CREAT | os.O_TRUNC | os.O_APPEND
_EVENTS = {"open", "os.rename", "os.chmod", "os.link", "os.symlink", "os.remove", "os.mkdir",
           "os.rmdir", "os.utime", "shutil.copyfile", "os.truncate"}


def _hook(event, args):
    if not _M["on"] or event not in _EVENTS:
        return
    try:
        path = args[0]
        if isinstance(path, bytes):
            path = path.decode("utf-8", "replace")
        if not isinstance(path, str):
            return
        extra = None
        if event == "open":
            flags = args[2] if len(args) > 2 else 0
            if not isinstance(flags, int) or not flags & _WRITE_FLAGS:
                return
            extra = [n for n in ("O_CREAT", "O_TRUNC", "O_WRONLY", "O_RDWR", "O_APPEND", "O_EXCL")
                     if flags & getattr(os, n)]
        elif event in ("os.rename", "os.link", "os.symlink", "shutil.copyfile"):
            extra = args[1] if isinstance(args[1], str) else None
            if event == "os.symlink":
                path, extra = args[1], args[0]
        root = _M["root"]
        ap = path if os.path.isabs(path) else None
        if ap is not None and not ap.startswith(root):
            if not (isinstance(extra, str) and extra.startswith(root)):
                return
        n = _M["count"]
        _M["count"] = n + 1
        if _M["events"] is not None:
            rel = os.path.relpath(path, root) if ap else path
            ex = os.path.relpath(extra, root) if isinstance(extra, str) and os.path.isabs(extra) else extra
            _M["events"].append([event, rel, ex])
        if _M["crash_at"] is not None and n == _M["crash_at"]:
            os._exit(137)
    except SystemExit:
        raise
    except Exception:  # noqa: BLE001
        return


_HOOKED = [False]


def _install():
    if not _HOOKED[0]:
        sys.addaudithook(_hook)
        _HOOKED[0] = True
        orig_copyfile = shutil.copyfile
        orig_copyfileobj = shutil.copyfileobj

        def copyfile(src, dst, *a, **kw):
            if _M["on"] and _M["half_at"] is not None:
                k = _M["copies"]
                _M["copies"] = k + 1
                if k == _M["half_at"]:
                    data = open(src, "rb").read()
                    with open(dst, "wb") as f:
                        f.write(data[: len(data) // 2])
                        f.flush()
                    os._exit(137)
            elif _M["on"]:
                _M["copies"] += 1
            return orig_copyfile(src, dst, *a, **kw)

        def copyfileobj(fsrc, fdst, length=0):
            if _M["on"] and _M["half_at"] is not None:
                k = _M["copies"]
                _M["copies"] = k + 1
                if k == _M["half_at"]:
                    data = fsrc.read()
                    fdst.write(data[: len(data) // 2])
                    fdst.flush()
                    os._exit(137)
            elif _M["on"]:
                _M["copies"] += 1
            return orig_copyfileobj(fsrc, fdst, length) if length else orig_copyfileobj(fsrc, fdst)

        shutil.copyfile = copyfile
        shutil.copyfileobj = copyfileobj


def run_child(body, root, cfg, phase, crash_at=None, half_at=None, record=False, drop_caps=False):
    """Fork; run body(root, cfg, phase) with the hook armed. Returns (status, info).

    status: 'done' | 'crashed' | 'error'
    """
    out = os.path.join(root, f".child.{phase}.json")
    if os.path.exists(out):
        os.unlink(out)
    sys.stdout.flush()
    sys.stderr.flush()
    pid = os.fork()
    if pid == 0:
        code = 0
        try:
            from .world import drop_privileges, install_seams, reset_globals
            from . import world

            install_seams()
            reset_globals()
            world.ACTOR = phase[:1]
            _install()
            if drop_caps:
                drop_privileges()
            _M.update(on=False, root=root, count=0, crash_at=crash_at, half_at=half_at, copies=0,
                      events=[] if record else None)

            def arm():
                _M["on"] = True

            res = body(root, cfg, phase, arm)
            _M["on"] = False
            with open(out, "w") as f:
                json.dump({"ok": True, "events": _M["events"], "count": _M["count"],
                           "copies": _M["copies"], "result": res}, f)
        except BaseException:  # noqa: BLE001
            _M["on"] = False
            code = 3
            try:
                with open(out, "w") as f:
                    json.dump({"ok": False, "error": traceback.format_exc()[-3000:]}, f)
            except Exception:  # noqa: BLE001
                pass
        finally:
            os._exit(code)
    try:
        _pid, st = os.waitpid(pid, 0)
    except BaseException:
        # watchdog / interrupt while the child is still running: do not leave it behind
        try:
            os.kill(pid, 9)
            os.waitpid(pid, 0)
        except OSError:
            pass
        raise
    code = os.waitstatus_to_exitcode(st)
    info = {}
    if os.path.exists(out):
        try:
            info = json.load(open(out))
        except ValueError:
            info = {}
        os.unlink(out)
    if code == 137:
        return "crashed", info
    if code == 0 and info.get("ok"):
        return "done", info
    return "error", info
