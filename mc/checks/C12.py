"""C12 status is exact and the remote index never invents objects.

(a) E1: store contents x queries (1, 2, many ids; shallow / expanded; stores
seeded with >= 8 '00'-prefixed objects so that both lookup strategies of the
base store run) -> partition == set membership; compare_status == combination.
(b) E2: breadth-first search over histories of {closed transfer with a fault
set and a directory order, external deletion, status query} sharing one remote
index; invariant after every operation.
"""

import hashlib
import itertools
import os

from ..lab import MD5, hi, make_odb, put_raw
from ..world import World, digest_obj, objects_only, store_snapshot
from ..xfer import (
    FILE_OID,
    LISTING,
    OID_BYTES,
    TREE_OID,
    Plan,
    XWorld,
    fill_store,
    files_of_trees,
    name_of,
    subsets,
)

TREES = ["T1", "T2"]
FILES = files_of_trees(TREES)  # x, y, z
ABSENT = hashlib.md5(b"never-stored").hexdigest()  # noqa: S324

_ZERO = []


_ZERO_NEXT = [0]


def zero_objects(n):
    """n distinct contents whose md5 starts with '00' (brute force, cached, deterministic)."""
    while len(_ZERO) < n:
        i = _ZERO_NEXT[0]
        _ZERO_NEXT[0] += 1
        data = b"filler-%d" % i
        h = hashlib.md5(data).hexdigest()  # noqa: S324
        if h.startswith("00"):
            _ZERO.append((h, data))
    return _ZERO[:n]


# ---------------------------------------------------------------- part (a)


def status_case(case):
    from dvc_data.hashfile.status import compare_status, status

    res = {"n": 0, "trans": 0, "states": [], "outcomes": set(), "nontrivial": set(), "viol": [],
           "vac": {"strategy_list_oids_exists": 0, "strategy_traverse": 0, "expanded_queries": 0,
                   "compare_runs": 0}}
    sigs = set()
    universe = FILES + [TREE_OID[t] for t in TREES]
    qitems = universe + [ABSENT]
    content = case["content"]
    with World() as w:
        odb = make_odb(case["kind"], w.p("s"))
        fill_store(odb, content)
        for h, data in zero_objects(case["fillers"]):
            put_raw(odb, h, data)
        cache = make_odb("local", w.p("cache"))
        fill_store(cache, [TREE_OID[t] for t in TREES])
        calls = {"loe": 0, "trav": 0}
        o_loe, o_trav = odb.list_oids_exists, odb._list_oids_traverse

        def loe(*a, **k):
            calls["loe"] += 1
            return o_loe(*a, **k)

        def trav(*a, **k):
            calls["trav"] += 1
            return o_trav(*a, **k)

        odb.list_oids_exists = loe
        odb._list_oids_traverse = trav
        present = set(content)
        for q in subsets(qitems):
            if not q:
                continue
            for shallow in (True, False):
                ids = {hi(o) for o in q}
                expanded = set(q)
                if not shallow:
                    for o in q:
                        if o.endswith(".dir"):
                            expanded |= set(LISTING[name_of(o)].values())
                    res["vac"]["expanded_queries"] += 1
                sub = {"part": "status", "kind": case["kind"], "content": content,
                       "fillers": case["fillers"], "query": list(q), "shallow": shallow}
                try:
                    st = status(odb, ids, cache_odb=cache, shallow=shallow, jobs=1)
                except Exception as e:  # noqa: BLE001
                    res["viol"].append((f"status-raises-{type(e).__name__}", repr(e), sub))
                    continue
                res["n"] += 1
                res["trans"] += 1
                ex = {h.value for h in st.exists}
                ms = {h.value for h in st.missing}
                d = digest_obj((case["kind"], content, case["fillers"], q, shallow))
                res["states"].append(d)
                if len(q) >= 2 and content:
                    res["nontrivial"].add(d)
                want_ex = expanded & present
                want_ms = expanded - present
                if ex != want_ex or ms != want_ms:
                    sig = "status-partition-wrong/" + ("reports-absent-as-existing" if ex - want_ex else "reports-present-as-missing" if ms - want_ms else "lost-id")
                    if sig not in sigs:
                        sigs.add(sig)
                        res["viol"].append((sig, f"exists={[name_of(o) for o in ex]} want={[name_of(o) for o in want_ex]} missing={[name_of(o) for o in ms]} want={[name_of(o) for o in want_ms]}", sub))
        # ids sharing their two-character prefix, some present, some absent (any iteration order)
        if case["fillers"] >= 8:
            fill = zero_objects(case["fillers"] + 4)
            p00 = [h for h, _d in fill[:4]]
            a00 = [h for h, _d in fill[case["fillers"]:case["fillers"] + 4]]
            for pres, absn in ((p00[:1], a00[:1]), (p00[:2], a00[:2]), (p00, a00)):
                q = pres + absn
                st = status(odb, {hi(o) for o in q}, cache_odb=cache, jobs=1)
                res["n"] += 1
                res["trans"] += 1
                ex = {h.value for h in st.exists}
                ms = {h.value for h in st.missing}
                if ex != set(pres) or ms != set(absn):
                    sig = "status-partition-wrong/same-prefix-ids"
                    if sig not in sigs:
                        sigs.add(sig)
                        res["viol"].append((sig, f"exists={sorted(ex)} want={sorted(pres)}",
                                            {"part": "status", "kind": case["kind"], "content": content,
                                             "fillers": case["fillers"], "query": q, "shallow": True}))
        res["vac"]["strategy_list_oids_exists"] += calls["loe"]
        res["vac"]["strategy_traverse"] += calls["trav"]
        # compare_status against a second store
        for src_content in subsets(universe, 2):
            with World() as w2:
                src = make_odb("base", w2.p("src"))
                fill_store(src, src_content)
                for q in subsets(universe + [ABSENT]):
                    if len(q) not in (1, 2, len(universe) + 1):
                        continue
                    ids = {hi(o) for o in q}
                    sub = {"part": "compare", "kind": case["kind"], "content": content,
                           "fillers": case["fillers"], "src": list(src_content), "query": list(q)}
                    try:
                        cs = compare_status(src, odb, ids, cache_odb=cache, jobs=1)
                    except Exception as e:  # noqa: BLE001
                        res["viol"].append((f"compare-raises-{type(e).__name__}", repr(e), sub))
                        continue
                    res["n"] += 1
                    res["trans"] += 2
                    res["vac"]["compare_runs"] += 1
                    S, D, Q = set(src_content), present, set(q)
                    want = (Q & S & D, Q - S - D, (Q & S) - D, (Q & D) - S)
                    got = tuple({h.value for h in part} for part in (cs.ok, cs.missing, cs.new, cs.deleted))
                    if got != want and "compare-partition-wrong" not in sigs:
                        sigs.add("compare-partition-wrong")
                        res["viol"].append(("compare-partition-wrong",
                                            f"got={[[name_of(o) for o in p] for p in got]} want={[[name_of(o) for o in p] for p in want]}", sub))
    res["outcomes"] = [len(res["viol"])]
    res["nontrivial"] = sorted(res["nontrivial"])
    return res


# ---------------------------------------------------------------- special shapes


def special_case(case):
    """(1) an index of 1030 directory objects (beyond the 1000-object listing page) one of which vanished;
    (2) a local store with a hash-state whose directory objects are intact but not write-protected;
    (3) two stores that keep their indexes (get_index) in one tmp_dir."""
    import os

    from dvc_data.hashfile.db import HashFileDB, get_index
    from dvc_data.hashfile.db.index import ObjectDBIndex
    from dvc_data.hashfile.state import State
    from dvc_data.hashfile.status import status
    from dvc_data.hashfile.transfer import transfer

    from .. import ref
    from ..lab import BULK, BULK_MD5, LFS

    res = {"n": 0, "trans": 0, "states": [], "outcomes": set(), "nontrivial": set(), "viol": [],
           "vac": {"special_runs": 0}}

    def note(sig, detail, sub):
        if sig not in {v[0] for v in res["viol"]}:
            res["viol"].append((sig, detail, dict(sub, part="special")))

    kind = case["shape"]
    if kind == "big-index":
        names = list(BULK)[:1030]
        dirs = {}
        for c in names:
            lst = {"f": BULK_MD5[c]}
            dirs[ref.tree_oid(lst)] = (ref.tree_bytes(lst), BULK_MD5[c], BULK[c])
        order = sorted(dirs)
        for pos in (0, 999, 1000, len(order) - 1):
            with World() as w:
                odb = make_odb("base", w.p("s"))
                cache = make_odb("local", w.p("cache"))
                idx = ObjectDBIndex(w.p("idx"), "dest")
                try:
                    for d, (db, fo, fb) in dirs.items():
                        put_raw(cache, d, db)
                        if d != order[pos]:
                            put_raw(odb, d, db)
                            put_raw(odb, fo, fb)
                    idx.update(list(dirs), [v[1] for v in dirs.values()])
                    gone = order[pos]
                    q = [gone, order[(pos + 1) % len(order)]]
                    st = status(odb, {hi(o) for o in q}, index=idx, cache_odb=cache, jobs=1)
                    res["n"] += 1
                    res["trans"] += 1
                    res["vac"]["special_runs"] += 1
                    res["states"].append(digest_obj(("big-index", pos)))
                    res["nontrivial"].add(digest_obj(("big-index", pos)))
                    ex = {h.value for h in st.exists}
                    if gone in ex:
                        note("dir-reported-existing-but-absent/big-index",
                             f"vanished directory at sorted position {pos} of {len(order)}", {"shape": kind})
                    if q[1] not in ex:
                        note("present-dir-reported-missing/big-index", f"position {pos}", {"shape": kind})
                    if set(idx.dir_hashes()) & {gone}:
                        note("index-holds-vanished-dir/big-index", f"position {pos}", {"shape": kind})
                finally:
                    idx.close()
    elif kind == "stateful-local":
        universe = FILES + [TREE_OID[t] for t in TREES]
        for warm in (False, True):
            for unprot in subsets([TREE_OID[t] for t in TREES] + FILES[:1]):
                if not unprot:
                    continue
                with World() as w:
                    state = State(root_dir=w.root, tmp_dir=w.p("tmp"))
                    try:
                        odb = make_odb("local", w.p("s"), state=state)
                        fill_store(odb, universe)
                        cache = make_odb("local", w.p("cache"))
                        fill_store(cache, [TREE_OID[t] for t in TREES])
                        if warm:
                            # the state already vouches for every object (rows as add() writes them)
                            from dvc_data.hashfile.hash_info import HashInfo

                            state.save_many(((odb.oid_to_path(o), HashInfo("md5", o), None) for o in universe), LFS)
                        for o in unprot:
                            os.chmod(odb.oid_to_path(o), 0o644)
                        for shallow in (True, False):
                            st = status(odb, {hi(o) for o in universe}, cache_odb=cache, shallow=shallow, jobs=1)
                            res["n"] += 1
                            res["trans"] += 1
                            res["vac"]["special_runs"] += 1
                            ex = {h.value for h in st.exists}
                            now = set(objects_only(store_snapshot(odb.path)))
                            sub = {"shape": kind}
                            if ex != set(universe):
                                note("status-partition-wrong/reports-present-as-missing/stateful-local",
                                     f"warm={warm} unprotected={[name_of(o) for o in unprot]} missing={[name_of(o) for o in set(universe) - ex]}", sub)
                            if now != set(universe):
                                note("status-deleted-an-intact-object/stateful-local",
                                     f"warm={warm} gone={[name_of(o) for o in set(universe) - now]}", sub)
                    finally:
                        state.close()
                res["states"].append(digest_obj((kind, warm, unprot)))
                res["nontrivial"].add(digest_obj((kind, warm, unprot)))
    elif kind == "special-values":
        # the special-name tree, two objects sharing their fan-out prefix, and the zero-byte object
        from ..xfer import LISTING, OID_BYTES

        for skind in ("local", "base"):
            with World() as w:
                # (the store's path holds characters that mean something to str.format)
                odb = make_odb(skind, os.path.join(w.p("pr{0}ject {x}"), "s"))
                cache = make_odb("local", w.p("cache"))
                ts, tw = TREE_OID["TS"], TREE_OID["TW"]
                files = sorted(set(LISTING["TS"].values()) | set(LISTING["TW"].values()) | {MD5["e"]})
                for o in files + [ts, tw]:
                    put_raw(odb, o, OID_BYTES.get(o, b""))
                for o in (ts, tw):
                    put_raw(cache, o, OID_BYTES[o])
                absent = list(LISTING["TW"].values())[0]
                os.chmod(odb.oid_to_path(absent), 0o644)
                os.unlink(odb.oid_to_path(absent))   # one of the two prefix twins is missing
                for shallow in (True, False):
                    q = {hi(ts), hi(tw), hi(MD5["e"])} | {hi(o) for o in LISTING["TW"].values()}
                    st = status(odb, q, cache_odb=cache, shallow=shallow, jobs=1)
                    res["n"] += 1
                    res["trans"] += 1
                    res["vac"]["special_runs"] += 1
                    ex = {h.value for h in st.exists}
                    ms = {h.value for h in st.missing}
                    want = {ts, tw, MD5["e"]} | set(LISTING["TW"].values())
                    if not shallow:
                        want |= set(LISTING["TS"].values())
                    want_ms = {absent}
                    if ex != want - want_ms or ms != want_ms:
                        note(f"status-partition-wrong/special-values/{skind}",
                             f"shallow={shallow} wrongly missing={sorted(o[:8] for o in (want - want_ms) - ex)} "
                             f"wrongly existing={sorted(o[:8] for o in ex - (want - want_ms))} lost={sorted(o[:8] for o in want - ex - ms)}",
                             {"shape": kind})
                    now = set(objects_only(store_snapshot(odb.path)))
                    if now != set(files + [ts, tw]) - {absent}:
                        note(f"status-changed-the-store/special-values/{skind}", "", {"shape": kind})
            res["states"].append(digest_obj((kind, skind)))
            res["nontrivial"].add(digest_obj((kind, skind)))
    else:  # shared-tmp-dir
        with World() as w:
            tmp = w.mkdir("indexes")
            src = make_odb("local", w.p("src"))
            fill_store(src, FILES + [TREE_OID[t] for t in TREES])
            a = HashFileDB(LFS, w.mkdir("remote-a"), tmp_dir=tmp)
            b = HashFileDB(LFS, w.mkdir("remote-b"), tmp_dir=tmp)
            ia = get_index(a)
            ids = {hi(o) for o in FILES + [TREE_OID[t] for t in TREES]}
            transfer(src, a, ids, dest_index=ia, jobs=1)
            ia.close()
            ib = get_index(b)
            # (a file-only query: nothing in it makes status re-validate indexed directories)
            st = status(b, {hi(o) for o in FILES}, index=ib, cache_odb=src, jobs=1)
            ib.close()
            res["n"] += 2
            res["trans"] += 2
            res["vac"]["special_runs"] += 1
            res["states"].append(digest_obj((kind,)))
            res["nontrivial"].add(digest_obj((kind,)))
            ex = {h.value for h in st.exists}
            if ex:
                note("status-partition-wrong/reports-absent-as-existing/shared-tmp-dir",
                     f"store b is empty but {[name_of(o) for o in ex]} are reported as existing after a push to store a", {"shape": kind})
    res["outcomes"] = sorted({v[0] for v in res["viol"]}) or ["clean"]
    res["nontrivial"] = sorted(res["nontrivial"])
    return res


# ---------------------------------------------------------------- part (b)

REQUESTS = {
    "c1": (["T1"], True),
    "c2": (["T2"], True),
    "c12": (["T1", "T2"], True),
    "c21": (["T2", "T1"], True),   # same request, other directory order
    "e1": (["T1"], False),
    "e12": (["T1", "T2"], False),
}


def alphabet(tier):
    ops = []
    for r, (trees, closed) in REQUESTS.items():
        objs = files_of_trees(trees) + [TREE_OID[t] for t in trees]
        ops.append(("xfer", r, []))
        for o in objs:
            ops.append(("xfer", r, [o]))
        if tier == "thorough" and len(trees) == 2:
            for pair in itertools.combinations(files_of_trees(trees), 2):
                ops.append(("xfer", r, list(pair)))
    for r in ("c1", "c12", "e1"):
        # the same faults surfacing as FileNotFoundError (the remote directory vanished under the upload)
        trees, _closed = REQUESTS[r]
        ops.append(("xfer", r, [TREE_OID[trees[0]]], "enoent"))
        ops.append(("xfer", r, [files_of_trees(trees)[0]], "enoent"))
    # the process killed on entering the k-th index transaction of a transfer / of a status query
    for k in (1, 2, 3):
        ops.append(("kxfer", "c1", k))
    ops.append(("kxfer", "e12", 1))
    ops.append(("kstatus", "dirs", 1))
    for o in FILES + [TREE_OID[t] for t in TREES]:
        ops.append(("del", o))
    ops.append(("status", "closed"))
    ops.append(("status", "expanded"))
    ops.append(("status", "dirs"))
    ops.append(("status", "dir-T1"))
    ops.append(("status", "dir-T2"))
    return ops


def _killed(fn, k):
    """Run fn() in a forked child that is killed on entering its k-th index transaction (k = 0, 1, ...).
    Returns True if the child was killed there, False if it finished first."""
    from dvc_data.hashfile.cache import Index

    pid = os.fork()
    if pid == 0:
        try:
            seen = [0]
            orig = Index.transact

            def transact(self, *a, **kw):
                if seen[0] == k:
                    os._exit(77)
                seen[0] += 1
                return orig(self, *a, **kw)

            Index.transact = transact
            fn()
        except BaseException:  # noqa: BLE001
            os._exit(3)
        os._exit(0)
    _pid, st = os.waitpid(pid, 0)
    code = os.waitstatus_to_exitcode(st)
    if code not in (0, 77):
        raise RuntimeError(f"killed-operation child ended with {code}")
    return code == 77


def run_history(hist, init="empty"):
    """Execute a history on a fresh world. Returns (violations, canonical state, steps)."""
    from dvc_data.hashfile.status import status

    viol = []
    steps = 0
    with World() as w:
        xw = XWorld(w, TREES, dest_kind="base", use_index=True)
        try:
            delivered = set()
            if init == "orphan-dir-indexed":
                # someone else left T1's directory object in the store without its files, and a status
                # query has indexed it (with the files it lists, which were never delivered here)
                fill_store(xw.dest, [TREE_OID["T1"]])
                delivered.add(TREE_OID["T1"])
                status(xw.dest, {hi(TREE_OID["T1"])}, index=xw.index, cache_odb=xw.src, jobs=1)
            if init == "orphan-dir-indexing-killed":
                # the same, but the indexing status query was killed between its index transactions
                fill_store(xw.dest, [TREE_OID["T1"]])
                delivered.add(TREE_OID["T1"])
                _killed(lambda: status(xw.dest, {hi(TREE_OID["T1"])}, index=xw.index, cache_odb=xw.src, jobs=1), 1)
            if init == "src-lacks-y":
                # a file listed by T1 is in neither store: T1 can never be completed
                os.unlink(xw.src.oid_to_path(MD5["y"]))
            for i, op in enumerate(hist):
                steps += 1
                before = set(objects_only(store_snapshot(xw.dest.path)))
                if op[0] == "xfer":
                    trees, closed = REQUESTS[op[1]]
                    ids = xw.request(trees, closed=closed)
                    order = [TREE_OID[t] for t in trees]
                    try:
                        xw.transfer(ids, plan=Plan(fail_oids=op[2], enoent=len(op) > 3), order=order, shallow=closed)
                    except Exception as e:  # noqa: BLE001
                        viol.append((f"transfer-raises-{type(e).__name__}", f"step {i} {op}: {e!r}"))
                    after = set(objects_only(store_snapshot(xw.dest.path)))
                    delivered |= after - before
                elif op[0] == "kxfer":
                    # the transfer's process is killed on entering its k-th index transaction
                    trees, closed = REQUESTS[op[1]]
                    ids = xw.request(trees, closed=closed)
                    order = [TREE_OID[t] for t in trees]
                    _killed(lambda: xw.transfer(ids, plan=Plan(), order=order, shallow=closed), op[2])
                    after = set(objects_only(store_snapshot(xw.dest.path)))
                    delivered |= after - before
                elif op[0] == "kstatus":
                    q = [TREE_OID[t] for t in TREES]
                    _killed(lambda: status(xw.dest, {hi(o) for o in q}, index=xw.index, cache_odb=xw.src,
                                           shallow=True, jobs=1), op[2])
                elif op[0] == "del":
                    p = xw.dest.oid_to_path(op[1])
                    if os.path.exists(p):
                        os.unlink(p)
                elif op[0] == "status":
                    q = {"closed": FILES + [TREE_OID[t] for t in TREES],
                         "expanded": [TREE_OID[t] for t in TREES],
                         "dirs": [TREE_OID[t] for t in TREES],
                         "dir-T1": [TREE_OID["T1"]], "dir-T2": [TREE_OID["T2"]]}[op[1]]
                    shallow = op[1] != "expanded"
                    try:
                        st = status(xw.dest, {hi(o) for o in q}, index=xw.index, cache_odb=xw.src,
                                    shallow=shallow, jobs=1)
                    except Exception as e:  # noqa: BLE001
                        viol.append((f"status-raises-{type(e).__name__}", f"step {i}: {e!r}"))
                        st = None
                    now = set(objects_only(store_snapshot(xw.dest.path)))
                    if st is not None:
                        for h in st.exists:
                            if h.value.endswith(".dir") and h.value not in now:
                                viol.append(("dir-reported-existing-but-absent",
                                             f"step {i} {op}: {name_of(h.value)} hist={show(hist)}"))
                        got = {h.value for h in st.exists} | {h.value for h in st.missing}
                        want = set(q)
                        if not shallow:
                            for o in q:
                                want |= set(LISTING[name_of(o)].values())
                        if got != want or ({h.value for h in st.exists} & {h.value for h in st.missing}):
                            viol.append(("indexed-status-not-a-partition", f"step {i}: {got} vs {want}"))
                # invariant on the index after every library operation (an external deletion can only be
                # noticed by the next status / transfer, which re-validates the index)
                if op[0] == "del":
                    continue
                now = objects_only(store_snapshot(xw.dest.path))
                listed = set()
                for o in now:
                    if o.endswith(".dir") and o in TREE_OID.values():
                        listed |= set(LISTING[name_of(o)].values())
                idx = set(xw.index.hashes())
                for o in sorted(idx):
                    if o not in delivered and o not in listed:
                        viol.append(("index-holds-undelivered-id",
                                     f"after step {i} {op}: {name_of(o)} hist={show(hist)}"))
                for o in xw.index.dir_hashes():
                    if o not in delivered:
                        viol.append(("index-holds-undelivered-dir", f"after step {i}: {name_of(o)}"))
            now = set(objects_only(store_snapshot(xw.dest.path)))
            idx_items = sorted(xw.index.hashes())
            state = (tuple(sorted(now)), tuple(idx_items), tuple(sorted(delivered)))
        finally:
            xw.close()
    return viol, digest_obj(state), steps


def show(hist):
    out = []
    for op in hist:
        if op[0] == "xfer":
            out.append(f"xfer({op[1]},fail={[name_of(o) for o in op[2]]}{',ENOENT' if len(op) > 3 else ''})")
        elif op[0] in ("kxfer", "kstatus"):
            out.append(f"{op[0]}({op[1]},killed-at-index-transaction={op[2]})")
        elif op[0] == "del":
            out.append(f"del({name_of(op[1])})")
        else:
            out.append(f"status({op[1]})")
    return " ; ".join(out)


def hist_case(case):
    hist = [tuple(o) for o in case["hist"]]
    viol, state, steps = run_history(hist, case.get("init", "empty"))
    state = state + case.get("init", "empty")[:1]
    res = {"n": 1, "trans": steps, "state": state, "outcome": repr(sorted({v[0] for v in viol})),
           "nontrivial": len(hist) >= 2, "viol": [], "vac": {}}
    seen = set()
    for sig, detail in viol:
        if sig not in seen:
            seen.add(sig)
            res["viol"].append((sig, detail, {"part": "hist", "hist": case["hist"], "init": case.get("init", "empty")}))
    res["vac"]["histories_with_fault"] = 1 if any(o[0] == "xfer" and o[2] for o in hist) else 0
    res["vac"]["histories_with_kill"] = 1 if any(o[0] in ("kxfer", "kstatus") for o in hist) else 0
    res["vac"]["histories_with_enoent_fault"] = 1 if any(o[0] == "xfer" and len(o) > 3 for o in hist) else 0
    res["vac"]["histories_with_delete_then_status"] = 1 if any(
        a[0] == "del" and b[0] == "status" for a, b in zip(hist, hist[1:])) else 0
    return res


def run_case(case):
    if case.get("part") == "hist":
        return hist_case(case)
    if case.get("part") == "special":
        return special_case(case)
    return status_case(case)


def replay(case):
    if case["part"] == "special":
        r = special_case(case)
        return [(s_, d) for s_, d, _c in r["viol"]]
    if case["part"] == "hist":
        viol, _s, _n = run_history([tuple(o) for o in case["hist"]], case.get("init", "empty"))
        print("history:", show([tuple(o) for o in case["hist"]]))
        return viol
    r = status_case({"kind": case["kind"], "content": case["content"], "fillers": case["fillers"]})
    return [(s, d) for s, d, _ in r["viol"]]


def run(ctx):
    depth = 4 if ctx.tier == "thorough" else 3
    ops = alphabet(ctx.tier)
    ctx.rule = (
        "(a) every subset of {x,y,z,T1.dir,T2.dir} as store content x {0, 8, 12} '00'-prefixed filler objects "
        "x every non-empty query over those ids + an absent id x shallow/expanded, both store classes; "
        "compare_status against every source content of <= 2 objects; (b) BFS over histories of depth "
        f"<= {depth} over {len(ops)} operations (closed/expanded transfers of T1, T2, T1+T2 in both directory "
        "orders with no fault or any single (thorough: also pairs of) failing upload - EIO, and for three requests also FileNotFoundError on the first directory object / file; external deletion of each "
        "object; the process of a transfer / a status query killed on entering its k-th index transaction; 5 status queries) sharing one ObjectDBIndex, canonical-state de-duplication from depth 2; "
        "non-trivial = query of >= 2 ids on a non-empty store / history of >= 2 operations"
    )
    ctx.bound = {"history_depth": depth, "alphabet": len(ops), "trees": {t: LISTING[t] for t in TREES}}
    ctx.assumptions = [
        "stores live on the local file system (a memory-backed store is assumed complete by design)",
        "the index invariant is history-based: an id counts as delivered once a transfer of this history "
        "put it into the store; it is evaluated after every library operation (not right after an external "
        "deletion, which only the next indexed operation can notice); histories start from an empty destination "
        "and index, from a destination holding T1's directory object alone, already indexed by a status query, "
        "from a source that lacks a file T1 lists (missing on both sides), and from that orphan directory object with "
        "the indexing status query killed between its two index transactions; the kill operations end the process "
        "(fork + _exit) on entering the k-th index transaction - a kill inside a transaction rolls back to the same state",
        "canonical state = (objects in the destination, index contents, delivered set); temp files and "
        "timestamps are dropped (no operation of the alphabet observes them)",
    ]
    ctx.require("strategy_list_oids_exists", "strategy_traverse", "expanded_queries", "compare_runs",
                "histories_with_fault", "histories_with_delete_then_status", "special_runs",
                "histories_with_enoent_fault", "histories_with_kill")
    universe = FILES + [TREE_OID[t] for t in TREES]
    cs = []
    for kind in ("base", "local"):
        for content in subsets(universe):
            for fillers in (0, 8, 12):
                if kind == "local" and fillers not in (0, 8):
                    continue
                if kind == "local" and fillers and len(content) not in (0, len(universe)):
                    continue
                cs.append({"part": "status", "kind": kind, "content": list(content), "fillers": fillers})
    cs += [{"part": "special", "shape": sh} for sh in ("big-index", "stateful-local", "shared-tmp-dir", "special-values")]
    ctx.run_cases("run_case", cs, chunksize=1, det=2)
    # (b) BFS
    nodedup = 3 if ctx.tier == "thorough" else 2
    grand = 0
    for init in ("empty", "orphan-dir-indexed", "src-lacks-y", "orphan-dir-indexing-killed"):
        seen = set()
        frontier = [[]]
        total = 0
        for d in range(1, depth + 1):
            cases = [{"part": "hist", "hist": [list(o) for o in h] + [list(op)], "init": init}
                     for h in frontier for op in ops]
            nxt = []
            for case, res in ctx.run_level("run_case", cases, det=8 if d == 2 else 0):
                total += 1
                st = res.get("state")
                if st is None:
                    continue
                if st not in seen or d < nodedup:
                    seen.add(st)
                    nxt.append([tuple(o) for o in case["hist"]])
            frontier = sorted(nxt)
            ctx.extra[f"bfs_{init}_level_{d}"] = {"executed": len(cases), "extended": len(frontier)}
        ctx.sample({"init": init, "history": show([tuple(o) for o in (frontier[0] if frontier else [])])})
        ctx.extra[f"bfs_{init}_histories"] = total
        ctx.extra[f"bfs_{init}_distinct_states"] = len(seen)
        grand += total
    ctx.extra["bfs_histories"] = grand
