"""C17 lazy directory loading, filtered views and the fs adaptor are transparent.

E2: an index holding unloaded directory objects at depth 1 and 2 vs its
reference-built explicit twin; every sequence of access operations (which
trigger loading at different moments) x in-memory / SQLite backend; each answer
on the lazy index must equal the twin's.
"""

import itertools

from .. import ref
from ..lab import CONTENTS, MD5, make_odb, put_raw
from ..world import World, digest_obj

# u, u/v, u/v/w hold no file themselves; one name contains a backslash
D = {"a": "x", "s/b": "y", "s/t/c": "z", "u/v/w/leaf": "w", "q\\r": "y"}
EMPTY_OID = ref.tree_oid({})   # the directory object of an empty directory (listing [])
N = {"k": "w", "m/q": "x", "m/z": "e"}   # m/z is an empty file; N's directory object records sizes


def n_listing_bytes():
    """Directory object of N as written with metadata: every entry also carries its size (0 for m/z)."""
    import json

    lst = [{"md5": MD5[c], "relpath": r, "size": len(CONTENTS[c])} for r, c in sorted(N.items())]
    return json.dumps(lst, sort_keys=True).encode()


def oid_of(tree):
    if tree is N:
        return ref.md5(n_listing_bytes()) + ".dir"
    return ref.tree_oid({r: MD5[c] for r, c in tree.items()})


def fill(odb):
    for c in ("x", "y", "z", "w", "e"):
        put_raw(odb, MD5[c], CONTENTS[c])
    lst = {r: MD5[c] for r, c in D.items()}
    put_raw(odb, ref.tree_oid(lst), ref.tree_bytes(lst))
    put_raw(odb, oid_of(N), n_listing_bytes())
    put_raw(odb, EMPTY_OID, ref.tree_bytes({}))


def make_index(kind, backend, w, odb, tag):
    from dvc_data.hashfile.hash_info import HashInfo
    from dvc_data.hashfile.meta import Meta
    from dvc_data.index import DataIndex, DataIndexEntry, ObjectStorage

    idx = DataIndex() if backend == "mem" else DataIndex.open(w.p(f"{tag}.sqlite"))

    def put(k, **kw):
        idx[k] = DataIndexEntry(key=k, **kw)

    put(("f",), meta=Meta(size=1), hash_info=HashInfo("md5", MD5["x"]))
    put((".f",), meta=Meta(size=3), hash_info=HashInfo("md5", MD5["w"]))   # a dot-file next to its dot-less sibling
    if kind == "lazy":
        put(("z0",), meta=Meta(isdir=True), hash_info=HashInfo("md5", EMPTY_OID))
    else:
        put(("z0",), meta=Meta(isdir=True), hash_info=HashInfo("md5", EMPTY_OID), loaded=True)
    put(("e",), meta=Meta(isdir=True), loaded=True)
    put(("e", "g"), meta=Meta(size=1), hash_info=HashInfo("md5", MD5["y"]))
    if kind == "lazy":
        put(("d",), meta=Meta(isdir=True), hash_info=HashInfo("md5", oid_of(D)))
        put(("e", "n"), meta=Meta(isdir=True), hash_info=HashInfo("md5", oid_of(N)))
    else:
        put(("d",), meta=Meta(isdir=True), hash_info=HashInfo("md5", oid_of(D)), loaded=True)
        put(("e", "n"), meta=Meta(isdir=True), hash_info=HashInfo("md5", oid_of(N)), loaded=True)
        for base, tree in ((("d",), D), (("e", "n"), N)):
            dirs = set()
            for rel, c in tree.items():
                parts = tuple(rel.split("/"))
                for i in range(1, len(parts)):
                    dirs.add(parts[:i])
                if tree is N:
                    put(base + parts, meta=Meta(md5=MD5[c], size=len(CONTENTS[c])), hash_info=HashInfo("md5", MD5[c]))
                else:
                    put(base + parts, meta=Meta(md5=MD5[c]), hash_info=HashInfo("md5", MD5[c]))
            for dk in dirs:
                put(base + dk, meta=Meta(isdir=True), loaded=True)
    idx.storage_map.add_cache(ObjectStorage((), odb))
    # registered after the root: a nested prefix served by the same store, and a prefix that no entry lives under,
    # served by another (empty) store - neither may change where the other entries find their data
    from ..lab import make_odb as _mk

    idx.storage_map.add_cache(ObjectStorage(("e", "n"), odb))
    idx.storage_map.add_cache(ObjectStorage(("zz-elsewhere",), _mk("local", w.p("elsewhere-store"))))
    if backend != "mem":
        idx.commit()
    return idx


TWIN_KEYS = [("f",), (".f",), ("z0",), ("d", "q\\r"), ("e",), ("e", "g"), ("d",), ("e", "n"),
             ("d", "a"), ("d", "s"), ("d", "s", "b"), ("d", "s", "t"), ("d", "s", "t", "c"),
             ("d", "u"), ("d", "u", "v"), ("d", "u", "v", "w"), ("d", "u", "v", "w", "leaf"),
             ("e", "n", "k"), ("e", "n", "m"), ("e", "n", "m", "q"), ("e", "n", "m", "z")]
DIR_KEYS = [(), ("z0",), ("e",), ("d",), ("e", "n"), ("d", "s"), ("d", "s", "t"), ("e", "n", "m"), ("d", "u"),
            ("d", "u", "v")]
ABSENT = [("zz",), ("d", "zz"), ("d", "a", "zz"), ("e", "n", "zz"), ("d", "s", "zz")]

FILTERS = {
    "all": lambda k: True,
    "d": lambda k: k[:1] == ("d",),
    "d/s": lambda k: k == ("d",) or k[:2] == ("d", "s"),
    "e": lambda k: k[:1] == ("e",),
    "e/n/m": lambda k: k in (("e",), ("e", "n")) or k[:3] == ("e", "n", "m"),
    "f+d/a": lambda k: k in (("f",), ("d",), ("d", "a")),
    "none": lambda k: False,
}


def queries():
    q = []
    for k in TWIN_KEYS + ABSENT:
        q.append(("get", k))
        q.append(("info", k))
    for k in DIR_KEYS + [("f",), ("zz",), ("d", "a")]:
        q.append(("ls", k))
    for k in DIR_KEYS:
        q.append(("items", k))
        q.append(("items-shallow", k))
    q.append(("diff", "lazy-vs-twin"))
    q.append(("diff", "twin-vs-lazy"))
    for f in FILTERS:
        q.append(("view-iter", f))
        q.append(("view-ls", f, ()))
        q.append(("view-ls", f, ("d",)))
        q.append(("view-ls", f, ("e", "n")))
    for p in ("/", "/d", "/d/s", "/e/n", "/e/n/m", "/f", "/.f", "/z0", "/zz", "/d/s/t", "/d/u", "/d/u/v/w"):
        q.append(("fs-ls", p))
        q.append(("fs-info", p))
    q.append(("fs-find", "/"))
    q.append(("fs-find", "/d/s"))
    for p in ("/f", "/.f", "/d/q\\r", "/d/a", "/d/s/t/c", "/e/n/m/q", "/e/n/m/z", "/e/g", "/d/zz", "/d/u/v/w/leaf"):
        q.append(("fs-cat", p))
        q.append(("fs-get", p))
        q.append(("fs-checksum", p))
    for p in ("/", "/d", "/e/n", "/d/s/t", "/f"):
        q.append(("fs-du", p))
    q.append(("fs-isdir-exists", "/d/s"))
    q.append(("fs-isdir-exists", "/e/n/k"))
    q.append(("fs-isdir-exists", "/nope"))
    q.append(("load",))
    return q


TRIGGERS = [("get", ("d", "a")), ("get", ("e", "n", "m", "q")), ("get", ("d", "zz")), ("info", ("d",)),
            ("ls", ()), ("ls", ("d",)), ("ls", ("e", "n")), ("ls", ("d", "s")), ("items", ()),
            ("items-shallow", ()), ("items", ("e",)), ("diff", "lazy-vs-twin"), ("view-iter", "d/s"),
            ("view-iter", "e/n/m"), ("view-ls", "all", ("d",)), ("fs-ls", "/d/s"), ("fs-cat", "/e/n/m/q"),
            ("fs-find", "/"), ("load",), ("fs-info", "/e/n/m"), ("persist",)]


def ent(e):
    if e is None:
        return None
    hi = e.hash_info
    m = e.meta
    return (hi.value if hi else None, bool(m.isdir) if m else False, m.size if m else None,
            bool(m.isexec) if m else False)


def infod(i):
    e = i.get("entry")
    return (i["type"], i.get("size"), i.get("isexec"), i.get("md5"), ent(e))


def answer(idx, q, twin):
    from dvc_data.fs import DataFileSystem
    from dvc_data.index import view
    from dvc_data.index.diff import diff

    kind = q[0]
    try:
        if kind == "get":
            return ent(idx[tuple(q[1])])
        if kind == "info":
            return infod(idx.info(tuple(q[1])))
        if kind == "ls":
            return sorted((k, infod(i)) for k, i in idx.ls(tuple(q[1]), detail=True))
        if kind in ("items", "items-shallow"):
            pre = tuple(q[1])
            return sorted((k, ent(e)) for k, e in idx.iteritems(prefix=pre or None, shallow=kind.endswith("shallow")))
        if kind == "diff":
            a, b = (idx, twin) if q[1] == "lazy-vs-twin" else (twin, idx)
            return sorted((c.typ, c.key) for c in diff(a, b, hash_only=True))
        if kind == "view-iter":
            v = view(idx, FILTERS[q[1]])
            return sorted(k for k, _e in v.iteritems())
        if kind == "view-ls":
            v = view(idx, FILTERS[q[1]])
            return sorted((k, infod(i)) for k, i in v.ls(tuple(q[2]), detail=True))
        if kind.startswith("fs-"):
            fs = DataFileSystem(index=idx)
            if kind == "fs-ls":
                return sorted((i["name"], i["type"], i.get("md5")) for i in fs.ls(q[1], detail=True))
            if kind == "fs-info":
                i = fs.info(q[1])
                return (i["type"], i.get("md5"), i.get("size"))
            if kind == "fs-find":
                return sorted(fs.find(q[1]))
            if kind == "fs-cat":
                return fs.cat_file(q[1])
            if kind == "fs-get":
                import os
                import tempfile

                d = tempfile.mkdtemp(dir=os.environ.get("MC_SESSION_ROOT"))
                try:
                    out = os.path.join(d, "out")
                    fs.get_file(q[1], out)
                    return open(out, "rb").read() if os.path.isfile(out) else ("DIR", sorted(os.listdir(out)))
                finally:
                    import shutil

                    shutil.rmtree(d, ignore_errors=True)
            if kind == "fs-checksum":
                return fs.checksum(q[1])
            if kind == "fs-du":
                return fs.du(q[1])
            if kind == "fs-isdir-exists":
                return (fs.isdir(q[1]), fs.isfile(q[1]), fs.exists(q[1]))
        if kind == "load":
            idx.load()
            idx.load()
            return sorted((k, ent(e)) for k, e in idx.iteritems())
        if kind == "has-node":
            return idx.has_node(tuple(q[1]))
        if kind == "longest-prefix":
            r = idx.longest_prefix(tuple(q[1]))
            return (r[0], ent(r[1])) if r else None
    except Exception as e:  # noqa: BLE001
        return ("EXC", type(e).__name__)
    raise AssertionError(q)


def expected_extra(q):
    """Independent expectations (beyond agreement with the twin)."""
    if q[0] == "view-iter":
        f = FILTERS[q[1]]
        return sorted(k for k in TWIN_KEYS if f(k))
    if q[0] in ("fs-cat", "fs-get"):
        want = {"/f": "x", "/d/a": "x", "/d/s/t/c": "z", "/e/n/m/q": "x", "/e/n/m/z": "e", "/e/g": "y", "/d/u/v/w/leaf": "w", "/.f": "w", "/d/q\\r": "y"}
        return CONTENTS[want[q[1]]] if q[1] in want else ("EXC", "FileNotFoundError")
    if q[0] == "fs-checksum":
        want = {"/f": "x", "/d/a": "x", "/d/s/t/c": "z", "/e/n/m/q": "x", "/e/n/m/z": "e", "/e/g": "y", "/d/u/v/w/leaf": "w", "/.f": "w", "/d/q\\r": "y"}
        return MD5[want[q[1]]] if q[1] in want else ("EXC", "FileNotFoundError")
    if q[0] == "diff":
        return []
    return None


_TWIN_ANS = {}


def run_seq(seq, backend):
    viol = []
    with World() as w:
        odb = make_odb("local", w.p("cache"))
        fill(odb)
        lazy = make_index("lazy", backend, w, odb, "lazy")
        twin_for_diff = make_index("twin", backend, w, odb, "twin0")
        for i, q in enumerate(seq):
            if q[0] == "persist":
                # everything is loaded and committed, the index is closed and opened again (SQLite), and the
                # directory objects leave the storage: every file is listed in the index by now, so nothing
                # may depend on them any more (loading is idempotent and its result persistent)
                if backend != "mem":
                    import os

                    from dvc_data.index import DataIndex, ObjectStorage

                    list(lazy.iteritems())   # a deep iteration loads every directory object
                    lazy.commit()
                    lazy.close()
                    lazy = DataIndex.open(w.p("lazy.sqlite"))
                    lazy.storage_map.add_cache(ObjectStorage((), odb))
                    for t in (D, N):
                        pth = odb.oid_to_path(oid_of(t))
                        if os.path.exists(pth):
                            os.unlink(pth)
                continue
            key = (backend, repr(q))
            twin = None
            if key not in _TWIN_ANS:
                # the answer of a *fresh* twin does not depend on the sequence: computed once per worker
                twin = make_index("twin", backend, w, odb, f"twin{i + 1}")
                _TWIN_ANS[key] = answer(twin, q, make_index("twin", "mem", w, odb, "t"))
            want = _TWIN_ANS[key]
            got = answer(lazy, q, twin_for_diff)
            if got != want:
                viol.append((f"lazy-index-differs-from-twin/{q[0]}",
                             f"step {i} {q} of {seq} backend={backend}: lazy={got!r:.300} twin={want!r:.300}"))
            extra = expected_extra(q)
            if extra is not None and got != extra:
                viol.append((f"answer-differs-from-reference/{q[0]}", f"{q}: got={got!r:.300} want={extra!r:.300}"))
            try:
                if twin is not None:
                    twin.close()
            except Exception:  # noqa: BLE001
                pass
        for x in (lazy, twin_for_diff):
            try:
                x.close()
            except Exception:  # noqa: BLE001
                pass
    return viol


def storage_index_case(case):
    """The adaptor reads bytes from storage even when a storage carries an existence index that is empty or stale."""
    import os

    from dvc_data.fs import DataFileSystem
    from dvc_data.index import DataIndex, ObjectStorage

    res = {"n": 0, "trans": 0, "states": [], "outcomes": set(), "nontrivial": set(), "viol": [],
           "vac": {"storage_index_reads": 0}}
    want = {"/f": "x", "/d/a": "x", "/d/s/t/c": "z", "/e/n/m/q": "x", "/e/n/m/z": "e", "/e/g": "y", "/d/u/v/w/leaf": "w", "/.f": "w", "/d/q\\r": "y"}
    for scen in ("empty-cache-index", "stale-cache-index-remote-has-it"):
        with World() as w:
            cache = make_odb("local", w.p("cache"))
            remote = make_odb("base", w.p("remote"))
            fill(cache)
            fill(remote)
            idx = make_index("lazy", case["backend"], w, cache, "lazy")
            exist_idx = DataIndex()
            if scen.startswith("stale"):
                # the existence index claims every object, but the cache lost one file object
                for oid in list(cache.all()):
                    exist_idx[cache._oid_parts(oid)] = None
                gone = cache.oid_to_path(MD5["z"])
                os.chmod(gone, 0o644)
                os.unlink(gone)
            idx.storage_map.add_cache(ObjectStorage((), cache, index=exist_idx))
            idx.storage_map.add_remote(ObjectStorage((), remote))
            fs = DataFileSystem(index=idx)
            for path, c in want.items():
                res["n"] += 1
                res["trans"] += 1
                res["vac"]["storage_index_reads"] += 1
                res["states"].append(digest_obj((scen, path, case["backend"])))
                res["nontrivial"].add(digest_obj((scen, path, case["backend"])))
                try:
                    got = fs.cat_file(path)
                except Exception as e:  # noqa: BLE001
                    got = ("EXC", type(e).__name__)
                if got != CONTENTS[c]:
                    res["viol"].append((f"adaptor-does-not-serve-bytes-held-in-storage/{scen}",
                                        f"{path}: {got!r:.80}", {"storage_index": True, "backend": case["backend"]}))
            try:
                idx.close()
            except Exception:  # noqa: BLE001
                pass
    res["outcomes"] = [len(res["viol"])]
    res["nontrivial"] = sorted(res["nontrivial"])
    return res


def run_case(case):
    if case.get("storage_index"):
        return storage_index_case(case)
    res = {"n": 0, "trans": 0, "states": [], "outcomes": set(), "nontrivial": set(), "viol": [],
           "vac": {"sequences": 0, "cat_reads": 0}}
    sigs = set()
    qs = queries()
    pre = [tuple(_t(q)) for q in case["prefix"]]
    for last in qs:
        seq = pre + [last]
        if seq[0][0] in ("has-node", "longest-prefix") and len(seq) == 1:
            pass
        viol = run_seq(seq, case["backend"])
        res["n"] += 1
        res["trans"] += len(seq)
        res["vac"]["sequences"] += 1
        if last[0] == "fs-cat":
            res["vac"]["cat_reads"] += 1
        d = digest_obj((seq, case["backend"]))
        res["states"].append(d)
        if len(seq) >= 2:
            res["nontrivial"].add(d)
        res["outcomes"].add(repr(sorted(v[0] for v in viol)))
        for sig, detail in viol:
            if sig not in sigs:
                sigs.add(sig)
                res["viol"].append((sig, detail, {"seq": [list(q) for q in seq], "backend": case["backend"]}))
    res["outcomes"] = sorted(res["outcomes"])
    res["nontrivial"] = sorted(res["nontrivial"])
    res["sample"] = {"prefix": case["prefix"], "then": "each of %d queries" % len(qs), "backend": case["backend"]}
    return res


def _t(q):
    return [tuple(x) if isinstance(x, list) else x for x in q]


def replay(case):
    if case.get("storage_index"):
        r = storage_index_case(case)
        return [(s_, d) for s_, d, _c in r["viol"]]
    return run_seq([tuple(_t(q)) for q in case["seq"]], case["backend"])


def run(ctx):
    qs = queries()
    ctx.rule = (
        f"E2: lazy index (files, an explicit directory, unloaded directory objects at depth 1 and 2) vs its "
        f"reference-built explicit twin; quick: every sequence (q1, q2) with q1 from the load-triggering queries and every third other query, q2 from all {len(qs)} queries; thorough: all pairs (get, info, "
        "ls, iteritems deep/shallow, hash-only diff against the twin in both orders, view iteration / ls with 7 "
        "prefix-closed filters, fs adaptor ls/info/find/cat, load twice); thorough: additionally every sequence "
        f"(t1, t2, q) with t1, t2 from {len(TRIGGERS)} load-triggering queries; both backends (pygtrie, SQLite); "
        "non-trivial = sequence of >= 2 queries"
    )
    ctx.bound = {"queries": len(qs), "triggers": len(TRIGGERS), "trees": {"d": D, "e/n": N}}
    ctx.assumptions = [
        "the twin is built by the reference model (an index produced by save() carries extra sub-directory hashes "
        "and is not the expanded form)",
        "__iter__/len/has_node/longest_prefix are raw-trie views (they do not load) and are not claimed; a view "
        "is iterated through iteritems()",
        "the loaded flag is excluded from the comparison",
    ]
    ctx.require("sequences", "cat_reads", "storage_index_reads")
    cs = []
    for backend in ("mem", "sqlite"):
        cs.append({"storage_index": True, "backend": backend})
        cs.append({"prefix": [], "backend": backend})
        firsts = qs if ctx.tier == "thorough" else list(TRIGGERS) + [q for q in qs[::3] if q not in TRIGGERS]
        for q in firsts:
            cs.append({"prefix": [list(q)], "backend": backend})
        if ctx.tier == "thorough":
            for a in TRIGGERS:
                for b in TRIGGERS:
                    cs.append({"prefix": [list(a), list(b)], "backend": backend})
    ctx.run_cases("run_case", cs, chunksize=1, det=2)
