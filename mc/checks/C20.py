"""C20 index and entry serialisation round-trips.

E1: product of optional fields of metadata / hash info / entries through
dict round trips; indexes through JSON, key-value db and the SQLite-backed
index (incl. overwrite / delete sequences, commit, close, reopen); listings
written with metadata and parsed back given the hash name.
"""

CASE_TIMEOUT = 600  # seconds per pool task (the unchanged tree needs a small fraction of this)

import itertools
import json
import os

from .. import ref
from ..lab import make_odb, put_raw
from ..world import World, digest_obj

H = ref.md5(b"c20")
AXES = {
    "isdir": [False, True],
    "size": [None, 0, 5],
    "nfiles": [None, 0, 3],
    "isexec": [False, True],
    "version_id": [None, "", "v1"],
    "etag": [None, "", "e-tag", '"0x8DA1A2B3"'],   # (cloud etags come quoted and in mixed case)
    "checksum": [None, "c"],
    "md5": [None, H],
    "remote": [None, "r"],
    "inode": [None, 7],
    "mtime": [None, 1.5],
}
HASHES = [None, ("md5", H), ("md5", H + ".dir"), ("etag", "abc"), ("md5-dos2unix", H), ("checksum", "cs"),
          ("md5", H.upper()), ("etag", '"0x8DA1B2C3D4E5F60"'), ("checksum", "Q2hlY2tTdW0=")]
LOADED = [None, True, False]


def mk_meta(d):
    from dvc_data.hashfile.meta import Meta

    return None if d is None else Meta(**d)


def mk_hi(h):
    from dvc_data.hashfile.hash_info import HashInfo

    return None if h is None else HashInfo(h[0], h[1])


def proj_meta(m):
    """Independent statement of which metadata fields are serialised."""
    if m is None:
        return {}
    out = {}
    if m.isdir:
        out["isdir"] = True
    if m.size is not None:
        out["size"] = m.size
    if m.nfiles is not None:
        out["nfiles"] = m.nfiles
    if m.isexec:
        out["isexec"] = True
    for f in ("version_id", "etag", "checksum", "md5", "remote"):
        if getattr(m, f):
            out[f] = getattr(m, f)
    return out


def proj_hi(h):
    if h is None or not h.value or not h.name:
        return {}
    return {h.name: h.value}


def proj_entry(e):
    return (proj_meta(e.meta), proj_hi(e.hash_info), e.loaded)


def all_metas():
    names = list(AXES)
    for vals in itertools.product(*(AXES[n] for n in names)):
        yield dict(zip(names, vals))


def covering_metas():
    base = {n: AXES[n][0] for n in AXES}
    out = [None, dict(base)]
    for n in AXES:
        for v in AXES[n][1:]:
            d = dict(base)
            d[n] = v
            out.append(d)
    out.append({n: AXES[n][-1] for n in AXES})
    out.append({n: AXES[n][1] if len(AXES[n]) > 2 else AXES[n][0] for n in AXES})
    return out


def pair_metas():
    base = {n: AXES[n][0] for n in AXES}
    out = []
    names = list(AXES)
    for a, b in itertools.combinations(names, 2):
        for va in AXES[a][1:]:
            for vb in AXES[b][1:]:
                d = dict(base)
                d[a], d[b] = va, vb
                out.append(d)
    return out


# ---- dict round trips -------------------------------------------------------


def run_dicts(case):
    from dvc_data.hashfile.hash_info import HashInfo
    from dvc_data.hashfile.meta import Meta
    from dvc_data.index import DataIndexEntry

    res = {"n": 0, "trans": 0, "states": [], "outcomes": set(), "nontrivial": set(), "viol": [],
           "vac": {"falsy_non_none_fields": 0}}
    sigs = set()

    def v(sig, detail, sub):
        if sig not in sigs:
            sigs.add(sig)
            res["viol"].append((sig, detail, sub))

    metas = list(all_metas())
    sl = case["slice"]
    metas = metas[sl[0]::sl[1]]
    for md in metas:
        m = mk_meta(md)
        d = m.to_dict()
        m2 = Meta.from_dict(json.loads(json.dumps(d)))
        res["n"] += 1
        res["trans"] += 2
        dd = digest_obj(md)
        res["states"].append(dd)
        if sum(1 for k, x in md.items() if x not in (None, False)) >= 2:
            res["nontrivial"].add(dd)
        if md["size"] == 0 or md["nfiles"] == 0:
            res["vac"]["falsy_non_none_fields"] += 1
        if proj_meta(m) != proj_meta(m2):
            lost = {k for k in proj_meta(m) if proj_meta(m).get(k) != proj_meta(m2).get(k)}
            v(f"meta-dict-roundtrip-loses-{'+'.join(sorted(lost))}", f"{md} -> {d} -> {proj_meta(m2)}",
              {"kind": "meta", "meta": md})
        if d != proj_meta(m):
            v("meta-to_dict-differs-from-serialised-fields", f"{md} -> {d}", {"kind": "meta", "meta": md})
        # entries: every hash x loaded for this meta
        for h in HASHES:
            for ld in LOADED:
                e = DataIndexEntry(key=("k",), meta=mk_meta(md), hash_info=mk_hi(h), loaded=ld)
                before = proj_entry(e)
                e2 = DataIndexEntry.from_dict(json.loads(json.dumps(e.to_dict())))
                res["n"] += 1
                res["trans"] += 2
                if proj_entry(e2) != before:
                    v("entry-dict-roundtrip-differs", f"{before} -> {proj_entry(e2)}",
                      {"kind": "entry", "meta": md, "hash": h, "loaded": ld})
    for h in HASHES:
        hi = mk_hi(h)
        if hi is None:
            continue
        h2 = HashInfo.from_dict(json.loads(json.dumps(hi.to_dict())))
        res["n"] += 1
        if proj_hi(h2) != proj_hi(hi) or h2 != hi:
            v("hashinfo-dict-roundtrip-differs", f"{h} -> {h2}", {"kind": "hi", "hash": h})
    res["outcomes"] = [len(res["viol"])]
    res["nontrivial"] = sorted(res["nontrivial"])
    return res


# ---- index forms -------------------------------------------------------------

KEYSETS = [
    [("a",), ("é", "ü x"), ("d",)],
    [("caf\u00e9",), ("cafe\u0301",), ("d", "\u212b")],   # NFC and NFD spellings of one name are different keys
    [("ключ",), ("d", "s", "t"), ("d", "s")],
]


def entry_variants(tier):
    metas = covering_metas()
    if tier == "thorough":
        metas = metas + pair_metas()
    out = []
    for md in metas:
        for h in HASHES:
            for ld in LOADED:
                out.append((md, h, ld))
    return out


def build_entries(triple, keys):
    from dvc_data.index import DataIndexEntry

    ents = {}
    for k, (md, h, ld) in zip(keys, triple):
        ents[k] = DataIndexEntry(key=k, meta=mk_meta(md), hash_info=mk_hi(h), loaded=ld)
    return ents


def check_forms(triple, keys, w, tag):
    from dvc_data.index import DataIndex, read_db, read_json, write_db, write_json

    viol = []
    ents = build_entries(triple, keys)
    want = {k: proj_entry(e) for k, e in ents.items()}

    def cmp(form, idx):
        got = {}
        try:
            for k in idx:
                got[k] = proj_entry(idx[k])
        except Exception as e:  # noqa: BLE001
            viol.append((f"{form}-read-raises-{type(e).__name__}", repr(e)))
            return
        if set(got) != set(want):
            viol.append((f"{form}-keys-differ", f"{sorted(want)} -> {sorted(got)}"))
            return
        for k in want:
            if got[k] != want[k]:
                part = [n for n, a, b in zip(("meta", "hash", "loaded"), want[k], got[k]) if a != b]
                viol.append((f"{form}-entry-differs-{'+'.join(part)}", f"{k}: {want[k]} -> {got[k]}"))

    idx = DataIndex(build_entries(triple, keys))
    p = w.p(f"{tag}.json")
    write_json(idx, p)
    cmp("json", read_json(p))
    # the same path written again, after a longer index had been stored there
    from dvc_data.hashfile.meta import Meta as _Meta
    from dvc_data.index import DataIndexEntry as _E

    longer = DataIndex(build_entries(triple, keys))
    for i in range(12):
        longer[("zz-padding", str(i))] = _E(key=("zz-padding", str(i)), meta=_Meta(size=i))
    write_json(longer, p)
    write_json(DataIndex(build_entries(triple, keys)), p)
    try:
        cmp("json-overwrite", read_json(p))
    except Exception as e:  # noqa: BLE001
        viol.append((f"json-overwrite-read-raises-{type(e).__name__}", repr(e)[:200]))
    idx = DataIndex(build_entries(triple, keys))
    p = w.p(f"{tag}.db")
    write_db(idx, p)
    cmp("db", read_db(p))
    # the same database path written again: first other values under the same keys, then the real ones
    other = DataIndex({k: _E(key=k, meta=_Meta(size=991)) for k in keys})
    p2 = w.p(f"{tag}.2.db")
    write_db(other, p2)
    write_db(DataIndex(build_entries(triple, keys)), p2)
    try:
        cmp("db-overwrite", read_db(p2))
    except Exception as e:  # noqa: BLE001
        viol.append((f"db-overwrite-read-raises-{type(e).__name__}", repr(e)[:200]))
    # SQLite-backed index, also with the root key
    p = w.p(f"{tag}.sqlite")
    sq = DataIndex.open(p)
    ents = build_entries(triple, keys)
    from dvc_data.index import DataIndexEntry

    md, h, ld = triple[0]
    ents[()] = DataIndexEntry(key=(), meta=mk_meta(md), hash_info=mk_hi(h), loaded=ld)
    want[()] = proj_entry(ents[()])
    for k, e in ents.items():
        sq[k] = e
    sq.commit()
    sq.close()
    sq2 = DataIndex.open(p)
    cmp("sqlite", sq2)
    sq2.close()
    return viol


def run_forms(case):
    res = {"n": 0, "trans": 0, "states": [], "outcomes": set(), "nontrivial": set(), "viol": [],
           "vac": {"nonascii_keys": 0, "root_key_sqlite": 0}}
    sigs = set()
    variants = entry_variants(case["tier"])
    sl = case["slice"]
    idxs = list(range(len(variants)))[sl[0]::sl[1]]
    with World() as w:
        for n, i in enumerate(idxs):
            triple = [variants[i], variants[(i * 7 + 3) % len(variants)], variants[(i * 13 + 5) % len(variants)]]
            for ks, keys in enumerate(KEYSETS):
                sub = {"kind": "forms", "triple": triple, "keyset": ks}
                viol = check_forms(triple, keys, w, f"i{n}k{ks}")
                res["n"] += 3
                res["trans"] += 6
                d = digest_obj((triple, ks))
                res["states"].append(d)
                res["nontrivial"].add(d)
                res["vac"]["nonascii_keys"] += 1
                res["vac"]["root_key_sqlite"] += 1
                for sig, detail in viol:
                    if sig not in sigs:
                        sigs.add(sig)
                        res["viol"].append((sig, detail, sub))
    res["outcomes"] = [len(res["viol"])]
    res["nontrivial"] = sorted(res["nontrivial"])
    res["sample"] = {"entries": [str(v) for v in variants[sl[0]: sl[0] + 1]], "keys": [list(k) for k in KEYSETS[0]],
                     "forms": ["json", "db", "sqlite(+root key)"]}
    return res


# ---- SQLite op sequences (identity cache in front of the JSON values) -----------

SEQ_ENTRIES = [
    ({"size": 1}, ("md5", H), None),
    ({"size": 0, "isexec": True}, None, True),
    (None, ("md5", H + ".dir"), False),
]
SEQ_KEYS = [(), ("a",), ("a", "b")]


def seq_ops():
    ops = []
    for ki in range(len(SEQ_KEYS)):
        for ei in range(len(SEQ_ENTRIES)):
            ops.append(("set", ki, ei))
        ops.append(("del", ki))
        ops.append(("restore", ki))   # read the entry, modify it in place, store the same object again
    ops.append(("commit",))
    ops.append(("reopen",))
    return ops


def run_seq(seq, w, tag):
    from dvc_data.index import DataIndex, DataIndexEntry

    viol = []
    p = w.p(f"{tag}.sqlite")
    idx = DataIndex.open(p)
    work = {}
    steps = 0

    def mk(ki, ei):
        md, h, ld = SEQ_ENTRIES[ei]
        full = None
        if md is not None:
            full = {n: AXES[n][0] for n in AXES}
            full.update(md)
        return DataIndexEntry(key=SEQ_KEYS[ki], meta=mk_meta(full), hash_info=mk_hi(h), loaded=ld)

    def compare(where):
        got = {}
        for k in idx:
            got[k] = proj_entry(idx[k])
        wantp = {k: proj_entry(e) for k, e in work.items()}
        if got != wantp:
            viol.append((f"sqlite-sequence-{where}-differs", f"after {seq}: want {wantp} got {got}"))
        for k in SEQ_KEYS:
            # a key without an entry has none for a direct lookup either
            if k not in work:
                try:
                    e = idx[k]
                    viol.append((f"sqlite-sequence-{where}-lookup-of-absent-key-answers", f"after {seq}: {k} -> {proj_entry(e)}"))
                except KeyError:
                    pass

    for op in seq:
        steps += 1
        if op[0] == "set":
            e = mk(op[1], op[2])
            idx[SEQ_KEYS[op[1]]] = e
            work[SEQ_KEYS[op[1]]] = e
        elif op[0] == "del":
            k = SEQ_KEYS[op[1]]
            if k not in work:
                continue
            del idx[k]
            del work[k]
        elif op[0] == "restore":
            from dvc_data.hashfile.hash_info import HashInfo
            from dvc_data.hashfile.meta import Meta

            k = SEQ_KEYS[op[1]]
            if k not in work:
                continue
            e = idx[k]
            e.meta = Meta(size=((e.meta.size or 0) if e.meta else 0) + 7, isexec=True)
            e.hash_info = HashInfo("md5", ref.md5(b"restored-%d" % steps))
            e.loaded = None
            idx[k] = e
            work[k] = DataIndexEntry(key=k, meta=Meta(size=e.meta.size, isexec=True),
                                     hash_info=HashInfo("md5", e.hash_info.value), loaded=None)
        elif op[0] == "commit":
            idx.commit()
        elif op[0] == "reopen":
            # the claimed round trip: commit, close, reopen
            idx.commit()
            idx.close()
            idx = DataIndex.open(p)
        compare("live" if op[0] != "reopen" else "reopened")
    idx.commit()
    idx.close()
    idx = DataIndex.open(p)
    compare("final-reopen")
    idx.close()
    return viol, steps


def run_seqs(case):
    res = {"n": 0, "trans": 0, "states": [], "outcomes": set(), "nontrivial": set(), "viol": [],
           "vac": {"overwrites": 0}}
    ops = seq_ops()
    depth = case["depth"]
    sigs = set()
    first = ops[case["first"]]
    with World() as w:
        n = 0
        for rest in itertools.product(ops, repeat=depth - 1):
            seq = (first, *rest)
            n += 1
            viol, steps = run_seq(seq, w, f"s{n}")
            res["n"] += 1
            res["trans"] += steps
            d = digest_obj(seq)
            res["states"].append(d)
            sets = [o for o in seq if o[0] == "set"]
            if len({o[1] for o in sets}) < len(sets):
                res["vac"]["overwrites"] += 1
                res["nontrivial"].add(d)
            for sig, detail in viol:
                if sig not in sigs:
                    sigs.add(sig)
                    res["viol"].append((sig, detail, {"kind": "seq", "seq": [list(o) for o in seq]}))
            if n % 200 == 0:
                for f in os.listdir(w.root):
                    os.unlink(w.p(f))
    res["outcomes"] = [len(res["viol"])]
    res["nontrivial"] = sorted(res["nontrivial"])
    return res


# ---- two SQLite-backed indexes of one process holding the same keys -------------------------------

TWO_KEYS = [(), ("a",)]


def two_ops():
    ops = []
    for f in (0, 1):
        for ki in range(len(TWO_KEYS)):
            for ei in (0, 1):
                ops.append(("set", f, ki, ei))
            ops.append(("del", f, ki))
        ops.append(("commit", f))
        ops.append(("reopen", f))
    return ops


def run_two(seq, w, tag):
    from dvc_data.index import DataIndex, DataIndexEntry

    viol = []
    paths = [w.p(f"{tag}.A.sqlite"), w.p(f"{tag}.B.sqlite")]
    idx = [DataIndex.open(paths[0]), DataIndex.open(paths[1])]
    work = [{}, {}]

    def mk(f, ki, ei):
        md, h, ld = SEQ_ENTRIES[ei]
        full = None
        if md is not None:
            full = {n: AXES[n][0] for n in AXES}
            full.update(md)
            full["size"] = (full.get("size") or 0) + 100 * f   # the two files never hold equal entries
        return DataIndexEntry(key=TWO_KEYS[ki], meta=mk_meta(full), hash_info=mk_hi(h), loaded=ld)

    def compare(where):
        for f in (0, 1):
            got = {k: proj_entry(idx[f][k]) for k in idx[f]}
            wantp = {k: proj_entry(e) for k, e in work[f].items()}
            if got != wantp:
                viol.append((f"two-sqlite-indexes-{where}-differs", f"file {'AB'[f]} after {seq}: want {wantp} got {got}"))
            for k in TWO_KEYS:
                if k not in work[f]:
                    try:
                        e = idx[f][k]
                        viol.append((f"two-sqlite-indexes-{where}-lookup-of-absent-key-answers",
                                     f"file {'AB'[f]} after {seq}: {k} -> {proj_entry(e)}"))
                    except KeyError:
                        pass

    for op in seq:
        f = op[1]
        if op[0] == "set":
            e = mk(f, op[2], op[3])
            idx[f][TWO_KEYS[op[2]]] = e
            work[f][TWO_KEYS[op[2]]] = e
        elif op[0] == "del":
            k = TWO_KEYS[op[2]]
            if k not in work[f]:
                continue
            del idx[f][k]
            del work[f][k]
        elif op[0] == "commit":
            idx[f].commit()
        elif op[0] == "reopen":
            idx[f].commit()
            idx[f].close()
            idx[f] = DataIndex.open(paths[f])
        compare("live" if op[0] != "reopen" else "reopened")
    for f in (0, 1):
        idx[f].commit()
        idx[f].close()
    idx = [DataIndex.open(paths[0]), DataIndex.open(paths[1])]
    compare("final-reopen")
    for f in (0, 1):
        idx[f].close()
    return viol


def run_twos(case):
    res = {"n": 0, "trans": 0, "states": [], "outcomes": set(), "nontrivial": set(), "viol": [],
           "vac": {"two_index_sequences": 0}}
    ops = two_ops()
    sigs = set()
    first = ops[case["first"]]
    with World() as w:
        n = 0
        for rest in itertools.product(ops, repeat=case["depth"] - 1):
            seq = (first, *rest)
            n += 1
            viol = run_two(seq, w, f"t{n}")
            res["n"] += 1
            res["trans"] += len(seq)
            d = digest_obj(("two", seq))
            res["states"].append(d)
            if len({o[1] for o in seq}) > 1:
                res["vac"]["two_index_sequences"] += 1
                res["nontrivial"].add(d)
            for sig, detail in viol:
                if sig not in sigs:
                    sigs.add(sig)
                    res["viol"].append((sig, detail, {"kind": "two", "seq": [list(o) for o in seq]}))
            if n % 100 == 0:
                for fn in os.listdir(w.root):
                    os.unlink(w.p(fn))
    res["outcomes"] = [len(res["viol"])]
    res["nontrivial"] = sorted(res["nontrivial"])
    return res


# ---- listings with metadata ------------------------------------------------------


def check_listing(hash_name, metas, kind):
    from dvc_data.hashfile.hash_info import HashInfo
    from dvc_data.hashfile.meta import Meta
    from dvc_data.hashfile.tree import Tree

    viol = []
    field = "md5" if hash_name in ("md5", "md5-dos2unix") else hash_name
    t = Tree()
    want = {}
    for i, md in enumerate(metas):
        d = dict(md)
        hv = ref.md5(f"{hash_name}{i}".encode())
        # the hash-name field of the metadata is owned by the hash: absent, or (odd entries) holding another
        # value that must not win over the entry's hash
        d[field] = None if i % 2 == 0 else ref.md5(f"meta-own-{i}".encode())
        key = ("d", f"f{i}é") if i % 2 else (f"f{i}",)
        t.add(key, Meta(**d), HashInfo(hash_name, hv))
        pm = proj_meta(Meta(**d))
        pm.pop(field, None)
        want[key] = (pm, (hash_name, hv))
    raw = t.as_bytes(with_meta=True)

    def cmp(form, t2):
        got = {}
        for k, m, h in t2:
            pm = proj_meta(m)
            pm.pop(field, None)
            got[k] = (pm, (h.name, h.value))
        if got != want:
            bad = [k for k in set(got) | set(want) if got.get(k) != want.get(k)]
            viol.append((f"listing-with-meta-{form}-differs/{hash_name}",
                         f"{[(k, want.get(k), got.get(k)) for k in bad[:2]]}"))

    cmp("from_list", Tree.from_list(json.loads(raw.decode("utf-8")), hash_name=hash_name))
    with World() as w:
        odb = make_odb(kind, w.p("s"), hash_name=hash_name)
        oid = ref.md5(raw) + ".dir"
        put_raw(odb, oid, raw)
        cmp("load", Tree.load(odb, HashInfo(hash_name, oid), hash_name=hash_name))
    return viol


def run_listings(case):
    res = {"n": 0, "trans": 0, "states": [], "outcomes": set(), "nontrivial": set(), "viol": [],
           "vac": {"listings": 0}}
    metas = covering_metas()[1:]
    if case["tier"] == "thorough":
        metas = metas + pair_metas()
    sigs = set()
    for hn in ("md5", "md5-dos2unix", "etag", "checksum"):
        for i in range(0, len(metas), 3):
            chunk = metas[i: i + 3]
            for kind in ("local", "base"):
                viol = check_listing(hn, chunk, kind)
                res["n"] += 2
                res["trans"] += 2
                res["vac"]["listings"] += 1
                d = digest_obj((hn, chunk))
                res["states"].append(d)
                res["nontrivial"].add(d)
                for sig, detail in viol:
                    if sig not in sigs:
                        sigs.add(sig)
                        res["viol"].append((sig, detail, {"kind": "listing", "hash_name": hn,
                                                          "metas": chunk, "store": kind}))
    res["outcomes"] = [len(res["viol"])]
    res["nontrivial"] = sorted(res["nontrivial"])
    return res


def run_bulk(case):
    """An index of 2500 entries (beyond any batching constant) through the three stored forms."""
    from dvc_data.hashfile.hash_info import HashInfo
    from dvc_data.hashfile.meta import Meta
    from dvc_data.index import DataIndex, DataIndexEntry, read_db, read_json, write_db, write_json

    res = {"n": 3, "trans": 6, "states": [digest_obj("bulk")], "outcomes": set(), "nontrivial": [digest_obj("bulk")],
           "viol": [], "vac": {"bulk_forms": 3}}
    n = 2500

    def entries():
        return {("d%02d" % (i % 40), "f%04d" % i): DataIndexEntry(key=("d%02d" % (i % 40), "f%04d" % i), meta=Meta(size=i),
                                                                   hash_info=HashInfo("md5", ref.md5(b"%d" % i)))
                for i in range(n)}

    want = {k: proj_entry(e) for k, e in entries().items()}
    with World() as w:
        for form in ("json", "db", "sqlite"):
            try:
                if form == "json":
                    write_json(DataIndex(entries()), w.p("b.json"))
                    back = read_json(w.p("b.json"))
                elif form == "db":
                    write_db(DataIndex(entries()), w.p("b.db"))
                    back = read_db(w.p("b.db"))
                else:
                    sq = DataIndex.open(w.p("b.sqlite"))
                    for k, e in entries().items():
                        sq[k] = e
                    sq.commit()
                    sq.close()
                    back = DataIndex.open(w.p("b.sqlite"))
                got = {k: proj_entry(back[k]) for k in back}
            except Exception as e:  # noqa: BLE001
                res["viol"].append((f"bulk-{form}-raises-{type(e).__name__}", repr(e)[:300], {"kind": "bulk"}))
                continue
            if got != want:
                lost = len(set(want) - set(got))
                res["viol"].append((f"bulk-{form}-round-trip-differs", f"{lost} of {n} entries lost, {len(set(got) - set(want))} extra",
                                    {"kind": "bulk"}))
    res["outcomes"] = [len(res["viol"])]
    return res


def run_case(case):
    return {"dicts": run_dicts, "forms": run_forms, "seqs": run_seqs, "listings": run_listings,
            "bulk": run_bulk, "twos": run_twos}[case["part"]](case)


def replay(case):
    k = case["kind"]
    if k in ("meta", "entry", "hi"):
        r = run_dicts({"slice": [0, 1]})
        return [(s, d) for s, d, _ in r["viol"]]
    if k == "forms":
        with World() as w:
            triple = [tuple(x) for x in case["triple"]]
            triple = [(t[0], tuple(t[1]) if t[1] else None, t[2]) for t in triple]
            return check_forms(triple, KEYSETS[case["keyset"]], w, "r")
    if k == "seq":
        with World() as w:
            return run_seq(tuple(tuple(o) for o in case["seq"]), w, "r")[0]
    if k == "two":
        with World() as w:
            return run_two(tuple(tuple(o) for o in case["seq"]), w, "r")
    if k == "listing":
        return check_listing(case["hash_name"], case["metas"], case["store"])
    if k == "bulk":
        return [(s_, d) for s_, d, _c in run_bulk(case)["viol"]]
    return []


def run(ctx):
    depth = 4 if ctx.tier == "thorough" else 3
    ctx.rule = (
        "E1: full product of metadata fields (5184) x hash variants x loaded flags through dict round "
        "trips; covering (thorough: + all pairs of) field variants in 3-entry indexes with non-ASCII and "
        "nested keys through JSON, key-value db and SQLite (incl. root key; commit, close, reopen); all "
        f"set/overwrite/delete/commit/reopen sequences of length {depth} on a SQLite-backed index vs a "
        "dict model (a key without an entry must not answer a direct lookup either); the same with two SQLite-backed "
        f"indexes of one process holding the same keys ({len(two_ops())} operations, every sequence of that length); a "
        "key-value database written twice under the same keys; listings with metadata for hash names md5, md5-dos2unix, etag, checksum; "
        "non-trivial = >= 2 non-default fields / overwrite present"
    )
    ctx.bound = {"meta_axes": {k: [repr(x) for x in v] for k, v in AXES.items()},
                 "hashes": [repr(h) for h in HASHES], "loaded": [repr(x) for x in LOADED],
                 "sqlite_sequence_depth": depth}
    ctx.assumptions = [
        "'no metadata' and 'metadata with no serialisable field' are the same projection "
        "(Meta() round-trips to None by design: no serialised field is lost)",
        "in a listing with metadata the metadata field named like the hash is owned by the hash",
        "SQLite rollback is not part of the claimed round trip (commit, close, reopen)",
    ]
    ctx.require("falsy_non_none_fields", "nonascii_keys", "root_key_sqlite", "overwrites", "listings", "bulk_forms",
                "two_index_sequences")
    cs = [{"part": "dicts", "slice": [i, 16]} for i in range(16)]
    cs += [{"part": "forms", "tier": ctx.tier, "slice": [i, 16]} for i in range(16)]
    cs += [{"part": "seqs", "depth": depth, "first": i} for i in range(len(seq_ops()))]
    cs += [{"part": "twos", "depth": depth, "first": i} for i in range(len(two_ops()))]
    cs += [{"part": "listings", "tier": ctx.tier}]
    cs += [{"part": "bulk"}]
    ctx.run_cases("run_case", cs, chunksize=1, det=2)
