"""C15 a crash at any point leaves the store valid, and re-running recovers.

E4: for each scenario (stage+transfer with state, index save of nested
directories, store-to-store transfer with a remote index, upload staging) x tree
x initial store x batch order x privilege: one forked child per file-system
mutating event (and per half-written copy), killed there; audit of the crashed
world; re-run to completion; comparison with the uninterrupted run.
"""

import os

from .. import ref
from ..crash import run_child
from ..lab import BULK, BULK_MD5, CONTENTS, LFS, MD5, hi, make_odb, put_raw
from ..world import World, digest_obj, objects_only, store_snapshot, write_tree

TREES = {
    "Ta": {"a": "x", "s/b": "y", "s/t/c": "z", "s/t/e0": "e"},   # (the deepest directory also lists an empty file)
    "Tb": {"a": "w", "b": "w", "e": "e"},
    "Tc": {"m": "v", "n/o": "crlf"},
}
SCENARIOS = ["stage-transfer", "index-save", "store-transfer", "upload", "verify-transfer",
             "index-save-2fs", "index-save-verify", "verify-transfer-dir", "index-save-2caches", "bulk-transfer",
             "stage-transfer-legacy", "store-transfer-src-partial"]
MEM_ROOT = "memory://c15-second-fs"


CONTENTS = dict(CONTENTS, latenul=b"row\r\n" * 120 + b"\x00tail\r\n", lonecr=b"10%\r50%\r100%\r\ndone\r\n")
MD5 = dict(MD5, latenul=ref.md5(CONTENTS["latenul"]), lonecr=ref.md5(CONTENTS["lonecr"]))
TREES["Tl"] = {"p": "crlf", "q": "latenul", "s/r": "lonecr"}   # contents whose legacy digest differs from their md5


def listing(t):
    if t == "Tbulk":
        return {f"f{i:04d}": BULK_MD5[c] for i, c in enumerate(BULK)}
    return {r: MD5[c] for r, c in TREES[t].items()}


def all_objects(t):
    lst = listing(t)
    if t == "Tbulk":
        out = {BULK_MD5[c]: BULK[c] for c in BULK}
        out[ref.tree_oid(lst)] = ref.tree_bytes(lst)
        return out
    out = {h: CONTENTS[c] for (r, c), h in zip(TREES[t].items(), lst.values())}
    out[ref.tree_oid(lst)] = ref.tree_bytes(lst)
    return out


def second_fs_dir(t):
    """Deepest directory of the tree (its files are kept on the second file system)."""
    dirs = sorted({r.rsplit("/", 1)[0] for r in TREES[t] if "/" in r}, key=lambda d: (d.count("/"), d))
    return dirs[-1] if dirs else None


def setup(root, cfg):
    """Deterministic harness-side preparation (not crash-eligible)."""
    t = cfg["tree"]
    if t == "Tbulk":
        src = make_odb("local", os.path.join(root, "src"))
        for oid, data in all_objects(t).items():
            put_raw(src, oid, data)
        make_odb("local", os.path.join(root, "odb"))
        os.makedirs(os.path.join(root, "tmp"), exist_ok=True)
        return
    local = {r: CONTENTS[c] for r, c in TREES[t].items()}
    if cfg["scenario"] == "index-save-2fs":
        # the files of the last sub-directory live on a second (in-memory) file system
        local = {r: d for r, d in local.items() if not r.startswith(second_fs_dir(t) + "/")}
    write_tree(os.path.join(root, "ws"), local)
    odb = make_odb("local", os.path.join(root, "odb"))
    if cfg["initial"] == "half":
        first = sorted(listing(t).values())[0]
        put_raw(odb, first, [CONTENTS[c] for c in TREES[t].values() if MD5[c] == first][0])
    if cfg["scenario"] in ("store-transfer", "verify-transfer", "store-transfer-src-partial"):
        src = make_odb("local", os.path.join(root, "src"))
        first_file = sorted(listing(t).values())[-1]
        partial_file = sorted(o for o, dta in all_objects(t).items() if dta and not o.endswith(".dir"))[-1]
        for oid, data in all_objects(t).items():
            if cfg["scenario"] == "verify-transfer" and oid == first_file:
                data = b"bit-rot:" + data   # a protected source object that no longer matches its name
            if cfg["scenario"] == "store-transfer-src-partial" and oid == partial_file:
                # an earlier crash left this object of the source half written and unprotected: the source's
                # own integrity check discards it, so the file is missing on both sides
                put_raw(src, oid, data[: len(data) // 2], protect=False)
                continue
            put_raw(src, oid, data)
    if cfg["scenario"] == "verify-transfer-dir":
        # a generic remote whose directory object was cut short by an interrupted upload; the listing is
        # known from a separate local cache
        src = make_odb("base", os.path.join(root, "src"))
        lc = make_odb("local", os.path.join(root, "listing-cache"))
        for oid, data in all_objects(t).items():
            if oid.endswith(".dir"):
                put_raw(lc, oid, data)
                data = data[: max(1, len(data) // 2)]
            put_raw(src, oid, data)
    os.makedirs(os.path.join(root, "tmp"), exist_ok=True)


def body(root, cfg, phase, arm):
    """The operation under test; runs in a forked child."""
    from dvc_data.hashfile.build import build
    from dvc_data.hashfile.db.index import ObjectDBIndex
    from dvc_data.hashfile.state import State
    from dvc_data.hashfile.transfer import transfer
    from dvc_data.index import build as ibuild
    from dvc_data.index import md5 as imd5
    from dvc_data.index import save as isave

    from ..xfer import install_order_seam, remove_order_seam

    t = cfg["tree"]
    state = State(root_dir=root, tmp_dir=os.path.join(root, "tmp"))
    odb = make_odb("local", os.path.join(root, "odb"), state=state)
    ws = os.path.join(root, "ws")
    sc = cfg["scenario"]
    if cfg.get("first"):
        install_order_seam([cfg["first"]])
    idx = None
    try:
        if sc in ("store-transfer", "verify-transfer", "bulk-transfer", "store-transfer-src-partial"):
            idx = ObjectDBIndex(os.path.join(root, "idx"), "dest")
        arm()
        if sc in ("stage-transfer", "upload"):
            staging, _m, obj = build(odb, ws, LFS, "md5", upload=sc == "upload")
            transfer(staging, odb, {obj.hash_info}, shallow=False, hardlink=False)
        elif sc in ("index-save", "index-save-verify"):
            index = imd5(ibuild(ws, LFS), state=state)
            isave(index, odb=odb, **({"verify": True} if sc == "index-save-verify" else {}))
        elif sc == "index-save-2fs":
            from dvc_objects.fs.memory import MemoryFileSystem

            from dvc_data.hashfile.meta import Meta
            from dvc_data.index import DataIndexEntry, FileStorage

            memfs = MemoryFileSystem()
            d = second_fs_dir(t)
            dk = tuple(d.split("/"))
            index = ibuild(ws, LFS)
            for i in range(1, len(dk) + 1):
                if dk[:i] not in index:
                    index[dk[:i]] = DataIndexEntry(key=dk[:i], meta=Meta(isdir=True))
            for r, c in TREES[t].items():
                if r.startswith(d + "/"):
                    rel = r[len(d) + 1:]
                    memfs.makedirs(memfs.parent(f"{MEM_ROOT}/{rel}"), exist_ok=True)
                    memfs.pipe_file(f"{MEM_ROOT}/{rel}", CONTENTS[c])
                    key = tuple(r.split("/"))
                    index[key] = DataIndexEntry(key=key, meta=Meta(size=len(CONTENTS[c])))
            index.storage_map.add_data(FileStorage(key=dk, fs=memfs, path=MEM_ROOT))
            index = imd5(index, state=state)
            isave(index, odb=odb)
        elif sc in ("store-transfer", "verify-transfer", "bulk-transfer", "store-transfer-src-partial"):
            src = make_odb("local", os.path.join(root, "src"))
            ids = {hi(o) for o in all_objects(t)}
            transfer(src, odb, ids, dest_index=idx, hardlink=False, verify=sc == "verify-transfer")
        elif sc == "stage-transfer-legacy":
            # the workspace is staged into the md5 store and then into a legacy (md5-dos2unix) store on the same state
            staging, _m, obj = build(odb, ws, LFS, "md5")
            transfer(staging, odb, {obj.hash_info}, shallow=False, hardlink=False)
            odb2 = make_odb("local", os.path.join(root, "odb2"), state=state, hash_name="md5-dos2unix")
            staging2, _m2, obj2 = build(odb2, ws, LFS, "md5-dos2unix")
            transfer(staging2, odb2, {obj2.hash_info}, shallow=False, hardlink=False)
        elif sc == "verify-transfer-dir":
            src = make_odb("base", os.path.join(root, "src"))
            lc = make_odb("local", os.path.join(root, "listing-cache"))
            ids = {hi(o) for o in all_objects(t)}
            transfer(src, odb, ids, hardlink=False, verify=True, cache_odb=lc)
        elif sc == "index-save-2caches":
            # entries below the deepest top-level directory are cached in a second store; save() gets no odb
            from dvc_data.index import ObjectStorage

            index = imd5(ibuild(ws, LFS), state=state)
            if cfg.get("sorted_keys"):
                # the same entries inserted in sorted key order (a root-level file comes first), not in walk order
                from dvc_data.index import DataIndex

                _ix = DataIndex()
                for _k in sorted(k for k, _e in index.iteritems()):
                    _ix[_k] = index[_k]
                _ix.storage_map = index.storage_map
                index = _ix
            odb2 = make_odb("local", os.path.join(root, "odb2"), state=state)
            index.storage_map.add_cache(ObjectStorage((), odb))
            index.storage_map.add_cache(ObjectStorage((second_fs_dir(t).split("/")[0],), odb2))
            isave(index)
    finally:
        if cfg.get("first"):
            remove_order_seam()
    if idx is not None:
        idx.close()
    state.close()
    return "ok"


def digest_ok(oid, data, alg="md5"):
    if not isinstance(data, bytes):
        return False
    if oid.endswith(".dir"):
        return ref.md5(data) == oid.split(".")[0]
    return ref.digest(alg, data) == oid.split(".")[0]


def audit(root, cfg, when):
    """Audit of the store(s) (and state) of a world. Returns (violations, junk list, snapshot)."""
    from dvc_data.hashfile.state import State

    viol = []
    junk = []
    snap = {}
    state = State(root_dir=root, tmp_dir=os.path.join(root, "tmp"))
    try:
        for store in ("odb", "odb2"):
            odb_path = os.path.join(root, store)
            if not os.path.isdir(odb_path):
                continue
            ssnap = objects_only(store_snapshot(odb_path))
            for oid, v in ssnap.items():
                snap[oid if store == "odb" else f"{store}:{oid}"] = v
            alg = "md5-dos2unix" if store == "odb2" and cfg["scenario"] == "stage-transfer-legacy" else "md5"
            for oid, (data, mode) in ssnap.items():
                p = os.path.join(odb_path, oid[:2], oid[2:])
                ok = digest_ok(oid, data, alg)
                try:
                    _m, hinfo = state.get(p, LFS)
                except Exception:  # noqa: BLE001
                    hinfo = None
                if hinfo is not None and isinstance(data, bytes):
                    # (rows of directory objects are written with or without the '.dir' suffix)
                    actual = ref.md5(data) if oid.endswith(".dir") else ref.digest(alg, data)
                    if hinfo.value.split(".")[0] != actual:
                        viol.append((f"state-vouches-for-mismatching-object/{when}",
                                     f"{oid[:10]} state says {hinfo.value[:10]} bytes hash to {actual[:10]}"))
                if not ok:
                    junk.append((oid, mode))
                    if mode == 0o444:
                        viol.append((f"mismatching-object-is-write-protected/{when}",
                                     f"{oid[:10]} holds {data[:20]!r} (len {len(data) if isinstance(data, bytes) else '?'})"))
                if oid.endswith(".dir") and ok:
                    lst = ref.parse_listing(data) or {}
                    gone = [h for h in lst.values() if h not in ssnap]
                    if gone:
                        viol.append((f"dir-object-present-without-its-files/{when}",
                                     f"{oid[:10]} in {store} lacks {[g[:8] for g in gone][:6]}"))
        # workspace rows: a valid row must tell the truth
        for dirpath, _d, files in os.walk(os.path.join(root, "ws")):
            for fn in files:
                p = os.path.join(dirpath, fn)
                try:
                    _m, hinfo = state.get(p, LFS)
                except Exception:  # noqa: BLE001
                    hinfo = None
                if hinfo is not None and hinfo.name == "md5" and hinfo.value != ref.md5(open(p, "rb").read()):
                    viol.append((f"state-vouches-for-wrong-workspace-hash/{when}", fn))
    finally:
        state.close()
    return viol, junk, snap


def explore(cfg):
    viol = []
    stats = {"points": 0, "half_copies": 0, "junk_unprotected_tolerated": 0, "events": 0}
    caps = cfg["caps"]
    with World() as w:
        ref_root = w.mkdir("ref")
        setup(ref_root, cfg)
        status, info = run_child(body, ref_root, cfg, "run", record=True, drop_caps=caps)
        if status != "done":
            return [(f"uninterrupted-run-failed/{cfg['scenario']}", str(info)[:600])], stats, []
        events = info["events"]
        ncopies = info["copies"]
        stats["events"] = len(events)
        v0, junk0, F = audit(ref_root, cfg, "uninterrupted")
        viol.extend(v0)
        if junk0:
            viol.append(("uninterrupted-run-left-mismatching-object", str(junk0)))
        want = {k: (v[0], v[1]) for k, v in F.items()}
        points = [("event", n) for n in range(len(events))] + [("half", k) for k in range(ncopies)]
        if cfg["scenario"] == "bulk-transfer":
            # 1300 objects: kill points at the first 4 events, around every link probe of a final object path, at every event
            # that touches the 1000th / 1001st object copied, and at the last 3 events; 3 half-written copies
            objs_in_order = [e[1] for e in events if e[0] == "os.rename" or e[0] == "shutil.copyfile"]
            keep = set(range(min(4, len(events)))) | set(range(max(0, len(events) - 3), len(events)))
            for n, e in enumerate(events):
                # the link probe(s): open(O_TRUNC) of a final object path, and the two events after it
                if e[0] == "open" and e[2] and "O_TRUNC" in e[2] and not e[1].endswith(".tmp") \
                        and e[1].split(os.sep)[0] == "odb":
                    keep |= {n, n + 1, n + 2} & set(range(len(events)))
            seen_objs = []
            for n, e in enumerate(events):
                tgt = e[2] if isinstance(e[2], str) and e[2].startswith("odb") else e[1]
                if tgt not in seen_objs:
                    seen_objs.append(tgt)
                if len(seen_objs) in (1000, 1001, 1002):
                    keep.add(n)
            points = [("event", n) for n in sorted(keep)] + [("half", k) for k in sorted({0, min(1000, ncopies - 1), ncopies - 1})]
        for kind, n in points:
            root = w.mkdir(f"{kind}{n}")
            setup(root, cfg)
            st, inf = run_child(body, root, cfg, "run", crash_at=n if kind == "event" else None,
                                half_at=n if kind == "half" else None, drop_caps=caps)
            if st != "crashed":
                viol.append(("harness-crash-point-not-reached", f"{kind} {n}: {st} {str(inf)[:300]}"))
                continue
            stats["points"] += 1
            if kind == "half":
                stats["half_copies"] += 1
            where = f"{kind}{n}"
            prev = events[n - 1] if kind == "event" and n > 0 else None
            nxt = events[n] if kind == "event" else ["half-copy", "", None]
            v1, junk, _snap = audit(root, cfg, "after-crash")
            stats["junk_unprotected_tolerated"] += sum(1 for _o, m in junk if m != 0o444)
            for sig, d in v1:
                if cfg["scenario"] == "stage-transfer-legacy":
                    sig = f"{sig}/{cfg['scenario']}"
                viol.append((sig, f"{d}; killed before event {n} {nxt} (previous {prev}) cfg={cfg}", where))
            # re-run the interrupted operation
            st2, inf2 = run_child(body, root, cfg, "rerun", drop_caps=caps)
            if st2 != "done":
                err = str(inf2.get("error", inf2))[-500:]
                cause = "other"
                if "PermissionError" in err or "EACCES" in err:
                    cause = "permission-denied"
                viol.append((f"rerun-after-crash-fails/{cfg['scenario']}/{cause}",
                             f"killed before event {n} {nxt}: {err}", where))
                continue
            v2, junk2, got = audit(root, cfg, "after-rerun")
            probe = prev is not None and prev[0] == "open" and prev[2] and "O_TRUNC" in prev[2] \
                and not prev[1].endswith(".tmp") and prev[1].split(os.sep)[0] in ("odb", "odb2")
            cause = "object-path-truncated-by-link-probe" if probe else "other"
            for sig, d in v2:
                viol.append((f"{sig}/{cfg['scenario']}/{cause}",
                             f"{d}; killed before event {n} {nxt} (previous {prev})", where))
            gotb = {k: v[0] for k, v in got.items()}
            wantb = {k: v[0] for k, v in want.items()}
            if gotb != wantb:
                bad = sorted(k for k in set(gotb) | set(wantb) if gotb.get(k) != wantb.get(k))
                okind = ""
                if cfg["scenario"] == "bulk-transfer":
                    okind = "/dir-object" if all(b.endswith(".dir") for b in bad) else "/file-object"
                viol.append((f"rerun-diverges-from-uninterrupted-run/{cfg['scenario']}/{cause}{okind}",
                             f"objects {[(b[:10], 'len=%d mode=%s' % (len(gotb[b]), oct(got[b][1])) if b in gotb else 'absent') for b in bad]} "
                             f"killed before event {n} {nxt} (previous {prev}) cfg={cfg}", where))
            else:
                stats["valid_objects_left_writable_after_rerun"] = stats.get(
                    "valid_objects_left_writable_after_rerun", 0) + sum(
                    1 for k in got if got[k][1] != want[k][1])
    return viol, stats, events[:60]


def run_case(case):
    cfg = case["cfg"]
    viol, stats, events = explore(cfg)
    res = {"n": stats["points"] + 1, "trans": stats["points"] * 2 + 1, "traces": stats["points"] + 1,
           "states": [digest_obj((cfg, i)) for i in range(stats["points"] + 1)],
           "outcomes": sorted({v[0] for v in viol}) or ["clean"],
           "nontrivial": [digest_obj((cfg, i)) for i in range(stats["points"])],
           "viol": [], "vac": {"crash_points": stats["points"], "half_copies": stats["half_copies"],
                               "unprotected_junk_tolerated": stats["junk_unprotected_tolerated"],
                               "valid_objects_left_writable_after_rerun": stats.get(
                                   "valid_objects_left_writable_after_rerun", 0)}}
    seen = set()
    for v in viol:
        sig, detail = v[0], v[1]
        where = v[2] if len(v) > 2 else None
        if sig not in seen:
            seen.add(sig)
            res["viol"].append((sig, detail, {"cfg": cfg, "point": where}))
    if cfg["scenario"] == "index-save" and cfg["tree"] == "Ta" and not cfg["caps"]:
        res["sample"] = {"cfg": cfg, "events": events}
    return res


def replay(case):
    viol, _s, _e = explore(case["cfg"])
    return [(v[0], v[1]) for v in viol]


def configs(tier):
    trees = ["Ta", "Tb"] + (["Tc"] if tier == "thorough" else [])
    yield {"scenario": "bulk-transfer", "tree": "Tbulk", "initial": "empty", "first": None, "caps": False}
    yield {"scenario": "stage-transfer-legacy", "tree": "Tl", "initial": "empty", "first": None, "caps": False}
    for sc in SCENARIOS:
        if sc in ("bulk-transfer", "stage-transfer-legacy"):
            continue
        for t in trees:
            if sc in ("index-save-2fs", "index-save-2caches") and second_fs_dir(t) is None:
                continue
            for initial in ("empty", "half"):
                if sc == "store-transfer-src-partial" and initial == "half" and sorted(listing(t).values())[0] == \
                        sorted(o for o, dta in all_objects(t).items() if dta and not o.endswith(".dir"))[-1]:
                    continue   # the destination already holds the damaged file: same as plain store-transfer
                firsts = [None]
                if sc in ("stage-transfer", "store-transfer", "upload", "verify-transfer", "verify-transfer-dir",
                          "store-transfer-src-partial"):
                    objs = sorted(all_objects(t))
                    firsts = objs if tier == "thorough" else [objs[0], objs[-1]]
                for first in firsts:
                    for caps in (False, True):
                        if caps and tier != "thorough" and t != "Ta":
                            continue
                        yield {"scenario": sc, "tree": t, "initial": initial, "first": first, "caps": caps}
                        if sc == "index-save-2caches":
                            yield {"scenario": sc, "tree": t, "initial": initial, "first": first, "caps": caps,
                                   "sorted_keys": True}


def run(ctx):
    ctx.rule = (
        "E4: scenarios {stage+transfer into a local store with state, index build/md5/save of nested "
        "directories, closed store-to-store transfer with a remote index, upload staging, verifying store-to-store transfer from a source holding a corrupt (protected) object, index save of an index whose deepest directory lives on a second (in-memory) file system, verifying index save, store-to-store transfer from a source one of whose objects is a half-written unprotected leftover} x trees (nested, "
        "duplicate + empty contents; thorough: + CRLF) x initial store {empty, half populated} x which object is "
        "first in an add batch x privilege {as invoked, CAP_DAC_OVERRIDE/FOWNER dropped}: the child is killed "
        "before every file-system-mutating event (audit hook) and in the middle of every byte copy; audit; "
        "re-run; compare with the uninterrupted run; every crash point is non-trivial"
    )
    ctx.bound = {"scenarios": SCENARIOS, "trees": TREES}
    ctx.assumptions = [
        "crash = process kill at Python-visible file-system calls; SQLite's own atomicity under kill is trusted; "
        "no power-loss / torn-write model (dvc-data never fsyncs)",
        "temp names (*.tmp) are tolerated, as the property says; an unprotected, unvouched mismatching file is "
        "tolerated at crash time (counted) but must not survive the re-run",
        "reflink is unsupported here: the reflink attempt and its fallback are exercised",
    ]
    ctx.require("crash_points", "half_copies")
    cs = [{"cfg": c} for c in configs(ctx.tier)]
    ctx.run_cases("run_case", cs, chunksize=1, det=1)
