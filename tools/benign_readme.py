#!/usr/bin/env python3
"""Regenerate benign/README.md from benign/*/meta.json (written by tools/benign_eval.py)."""
import json
import os

VERIF = os.path.dirname(os.path.dirname(os.path.abspath(__file__)))
B = os.path.join(VERIF, "benign")
rows = []
for name in sorted(os.listdir(B)):
    mp = os.path.join(B, name, "meta.json")
    if not os.path.exists(mp):
        continue
    m = json.load(open(mp))
    checks = ", ".join(f"{k}:{v['rc']}" for k, v in sorted((m.get("evaluation") or {}).get("checks", {}).items()))
    rows.append((name, m.get("property"), m.get("verdict"), (m.get("summary") or "").replace("|", "/")[:110], checks))
with open(os.path.join(B, "README.md"), "w") as f:
    f.write("# Property-preserving changes (false-alarm test)\n\n"
            "Written by independent sub-agents that saw only one property's text and were asked for realistic changes that keep\n"
            "it true. `benign-*` (wave 5): refactorings, batching, different but legal ordering, renamed private helpers ...;\n"
            "`benign9-*` (wave 9): changes of ERROR, CLEAN-UP and RECOVERY paths - other exception classes and messages, earlier\n"
            "clean-up, richer error objects, retried idempotent steps - written after the checks had grown fault-injecting parts.\n"
            "`tools/benign_eval.py` confirms on a scratch copy of /repo that the patch applies, the repository's suite passes and\n"
            "the author's demo passes with and without it, then runs the quick tier of the change's own check and of every check\n"
            "whose property is anchored in a touched file: all of them must exit 0. Regenerate this table with\n"
            "`tools/benign_readme.py`.\n\n"
            "| change | property | verdict | what was changed | checks run (exit code) |\n|---|---|---|---|---|\n")
    for r in rows:
        f.write("| " + " | ".join(str(x) for x in r) + " |\n")
print(len(rows), "entries;", sum(1 for r in rows if r[2] == "VALID SILENT"), "VALID SILENT")
