"""C04 transfer keeps the destination closed: a directory object implies its files.

E3: every subset of uploads fails x every directory processing order x abort at
every upload event, for tree sets that share files; invariant checked after
every upload event and at the end; fault-free retry must complete.
"""

import itertools

from ..lab import MD5
from ..world import World, digest_obj
from ..xfer import (
    LISTING,
    SCENARIOS,
    TREE_OID,
    Abort,
    Plan,
    XWorld,
    closure_violations,
    files_of_trees,
    name_of,
    subsets,
)


def shared_files(trees):
    cnt = {}
    for t in trees:
        for h in set(LISTING[t].values()):
            cnt[h] = cnt.get(h, 0) + 1
    return {h for h, c in cnt.items() if c > 1}


def one_exec(cfg, order, fail, abort_at):
    """One transfer (+ retry) on a fresh world. Returns (violations, info)."""
    trees = SCENARIOS[cfg["scenario"]]
    viol = []
    info = {"events": 0, "fired": 0, "aborted": False}
    with World() as w:
        initial = files_of_trees(trees)[:1] if cfg["initial"] == "partial" else []
        src_missing = [MD5[c] for c in cfg.get("src_missing", [])]
        corrupt = [MD5[c] for c in cfg.get("corrupt", [])]
        xw = XWorld(w, trees, dest_kind=cfg["dest"], use_index=cfg["index"], dest_initial=initial,
                    src_missing=src_missing, verify=bool(corrupt), corrupt=corrupt,
                    hash_name=cfg.get("hash_name", "md5"))
        bulk = cfg["scenario"] == "bulk"
        xkw = {"verify": True} if corrupt else {}
        try:
            ids = xw.request(trees, closed=cfg["request"] == "closed")
            shallow = cfg["request"] == "closed"
            sh = shared_files(trees)
            seen_mid = []

            def on_event(kind, oid, ok):
                if bulk and not (oid or "").endswith(".dir"):
                    return  # (closure can only break when a directory object arrives; saves 10^6 file reads)
                bad, _ = closure_violations(xw.dest.path)
                if bad and not seen_mid:
                    seen_mid.append((len(plan.events), bad))

            plan = Plan(fail_oids=fail, abort_at=abort_at, on_event=on_event, enoent=cfg.get("enoent", False))
            result = None
            try:
                result = xw.transfer(ids, plan=plan, order=order, shallow=shallow, **xkw)
            except Abort:
                info["aborted"] = True
            except Exception as e:  # noqa: BLE001
                viol.append((f"transfer-raises-{type(e).__name__}", repr(e)))
            info["events"] = len(plan.events)
            info["fired"] = plan.fired
            info["trace"] = [(k, name_of(o) if o else None, r) for k, o, r in plan.events][-40:]
            if seen_mid:
                n, bad = seen_mid[0]
                kind = "shared" if any(m in sh for _o, ms in bad for m in ms) else "own"
                viol.append(
                    (
                        f"dir-object-present-without-listed-file/{kind}-file-failed/during",
                        f"after event {n}: {[(name_of(o), [name_of(m) for m in ms]) for o, ms in bad]} trace={info['trace']}",
                    )
                )
            bad, snap = closure_violations(xw.dest.path)
            if bad:
                kind = "shared" if any(m in sh for _o, ms in bad for m in ms) else "own"
                if corrupt:
                    kind += "-corrupt"
                viol.append(
                    (
                        f"dir-object-present-without-listed-file/{kind}-file-failed/end",
                        f"{[(name_of(o), [name_of(m) for m in ms]) for o, ms in bad]} fail={[name_of(f) for f in fail]} order={[name_of(o) for o in order]}",
                    )
                )
            if result is not None:
                failed = {h.value for h in result.failed}
                for t in trees:
                    miss = [h for h in LISTING[t].values() if h not in snap]
                    if miss:
                        if TREE_OID[t] in snap:
                            pass  # already reported as closure violation
                        elif TREE_OID[t] not in failed:
                            if set(miss) & set(corrupt):
                                viol.append(("withheld-dir-not-reported-failed/corrupt-source-under-verify",
                                             f"{t} failed={[name_of(f) for f in failed]}"))
                                continue
                            why = "file-missing-on-both-sides" if set(miss) & set(src_missing) else "upload-failed"
                            viol.append(
                                (
                                    f"withheld-dir-not-reported-failed/{why}",
                                    f"{t} missing {[name_of(m) for m in miss]} failed={[name_of(f) for f in failed]}",
                                )
                            )
            # fault-free retry of the same request with the same index
            try:
                xw.transfer(ids, plan=Plan(), order=order, shallow=shallow, **xkw)
            except Exception as e:  # noqa: BLE001
                viol.append((f"retry-raises-{type(e).__name__}", repr(e)))
            bad2, snap2 = closure_violations(xw.dest.path)
            want = set(files_of_trees(trees)) | {TREE_OID[t] for t in trees}
            undeliverable = set(src_missing) | set(corrupt)
            if undeliverable:
                # what cannot be delivered at all: missing / corrupt files and every directory listing one
                want -= undeliverable
                want -= {TREE_OID[t] for t in trees if set(LISTING[t].values()) & undeliverable}
            if want - set(snap2) or bad2:
                viol.append(
                    (
                        f"clean-retry-incomplete/{'index' if cfg['index'] else 'noindex'}",
                        f"missing {[name_of(o) for o in sorted(want - set(snap2))]} after retry; first round fail={[name_of(f) for f in fail]} abort_at={abort_at} order={[name_of(o) for o in order]}",
                    )
                )
        finally:
            xw.close()
    return viol, info


# ---- index-level push / fetch (closed requests built by the library itself) ----------------

# share content y; d also lists two names that differ only in Unicode normalisation form and a dot / no-dot pair
PUSH_TREES = {"d": {"a": "y", "b/c": "z", "caf\u00e9": "x", "cafe\u0301": "v", ".h": "lf", "h": "crlf"},
              "e": {"k": "y", "m": "w"}}


def push_exec(cfg):
    """collect + push (or fetch) of an index with two directory entries sharing a file."""
    import os

    from dvc_data.hashfile.db import HashFileDB
    from dvc_data.hashfile.hash_info import HashInfo
    from dvc_data.hashfile.meta import Meta
    from dvc_data.index import DataIndex, DataIndexEntry, ObjectStorage
    from dvc_data.index.collect import collect
    from dvc_data.index.fetch import fetch
    from dvc_data.index.push import push

    from .. import ref
    from ..lab import CONTENTS, make_odb, put_raw
    from ..world import objects_only, store_snapshot
    from ..xfer import FaultFS

    viol = []
    info = {"fired": 0}
    with World() as w:
        ffs = FaultFS()
        ffs.store_root = w.p("dst")
        os.makedirs(ffs.store_root)
        if cfg["direction"] == "push":
            src = make_odb("local", w.p("src"))
            tmp = {"tmp_dir": w.mkdir("tmp")} if cfg["index"] else {}
            dst = HashFileDB(ffs, ffs.store_root, **tmp)
        else:
            tmp = {"tmp_dir": w.mkdir("tmp")} if cfg["index"] else {}
            src = HashFileDB(make_odb("base", w.p("src")).fs, w.p("src"), **tmp)
            from dvc_data.hashfile.db.local import LocalHashFileDB

            dst = LocalHashFileDB(ffs, ffs.store_root)
        listings = {t: {r: MD5[c] for r, c in files.items()} for t, files in PUSH_TREES.items()}
        objs = {}
        for t, lst in listings.items():
            objs[ref.tree_oid(lst)] = ref.tree_bytes(lst)
            for c in PUSH_TREES[t].values():
                objs[MD5[c]] = CONTENTS[c]
        gone = {MD5[c] for c in cfg["missing"]}
        for oid, data in objs.items():
            if oid not in gone:
                put_raw(src, oid, data)
        idx = DataIndex()
        for t, lst in listings.items():
            idx[(t,)] = DataIndexEntry(key=(t,), meta=Meta(isdir=True), hash_info=HashInfo("md5", ref.tree_oid(lst)))
        cache, remote = (src, dst) if cfg["direction"] == "push" else (dst, src)
        idx.storage_map.add_cache(ObjectStorage((), cache))
        idx.storage_map.add_remote(ObjectStorage((), remote))
        seen_mid = []

        def on_event(kind, oid, ok):
            snap = objects_only(store_snapshot(dst.path))
            for o in snap:
                if o.endswith(".dir"):
                    lst = ref.parse_listing(snap[o][0]) or {}
                    miss = [h for h in lst.values() if h not in snap]
                    if miss and not seen_mid:
                        seen_mid.append((o, miss))

        plan = Plan(fail_oids=cfg["fail"], on_event=on_event)
        ffs.plan = plan
        try:
            data = collect([idx], "remote", push=cfg["direction"] == "push")
            (push if cfg["direction"] == "push" else fetch)(data)
        except Exception as e:  # noqa: BLE001
            viol.append((f"{cfg['direction']}-raises-{type(e).__name__}", repr(e)))
        ffs.plan = None
        info["fired"] = plan.fired
        snap = objects_only(store_snapshot(dst.path))
        bad = []
        for o in snap:
            if o.endswith(".dir"):
                lst = ref.parse_listing(snap[o][0]) or {}
                miss = [h for h in lst.values() if h not in snap]
                if miss:
                    bad.append((o[:8], [m[:8] for m in miss]))
        why = "file-missing-on-both-sides" if cfg["missing"] else "upload-failed"
        if seen_mid:
            viol.append((f"{cfg['direction']}-level/dir-object-present-without-listed-file/{why}/during", f"{seen_mid[0]}"))
        if bad:
            viol.append((f"{cfg['direction']}-level/dir-object-present-without-listed-file/{why}/end", f"{bad}"))
        # clean retry completes whatever can be completed
        try:
            idx2 = DataIndex()
            for t, lst in listings.items():
                idx2[(t,)] = DataIndexEntry(key=(t,), meta=Meta(isdir=True), hash_info=HashInfo("md5", ref.tree_oid(lst)))
            idx2.storage_map.add_cache(ObjectStorage((), cache))
            idx2.storage_map.add_remote(ObjectStorage((), remote))
            (push if cfg["direction"] == "push" else fetch)(collect([idx2], "remote", push=cfg["direction"] == "push"))
        except Exception as e:  # noqa: BLE001
            viol.append((f"retry-{cfg['direction']}-raises-{type(e).__name__}", repr(e)))
        snap2 = objects_only(store_snapshot(dst.path))
        want = set()
        for t, lst in listings.items():
            if not (set(lst.values()) & gone):
                want |= set(lst.values()) | {ref.tree_oid(lst)}
            else:
                want |= set(lst.values()) - gone
        if want - set(snap2):
            viol.append((f"{cfg['direction']}-level/clean-retry-incomplete", f"missing {sorted(o[:8] for o in want - set(snap2))}"))
    return viol, info


def run_push_case(case):
    res = {"n": 0, "trans": 0, "states": [], "outcomes": set(), "nontrivial": set(), "viol": [],
           "vac": {"push_level_runs": 0, "push_level_faults_fired": 0}}
    sigs = set()
    base = case["cfg"]
    objs = ["y", "z", "w"]
    from .. import ref as _ref

    dirs = [_ref.tree_oid({r: MD5[c] for r, c in f.items()}) for f in PUSH_TREES.values()]
    cands = [MD5[c] for c in objs] + dirs
    for missing in ([], ["y"], ["z"], ["w"]):
        fails = list(subsets([c for c in cands if c not in {MD5[m] for m in missing}]))
        for fail in fails:
            cfg = dict(base, missing=missing, fail=list(fail))
            viol, info = push_exec(cfg)
            res["n"] += 1
            res["trans"] += 3
            res["vac"]["push_level_runs"] += 1
            res["vac"]["push_level_faults_fired"] += info["fired"]
            d = digest_obj(cfg)
            res["states"].append(d)
            if fail or missing:
                res["nontrivial"].add(d)
            res["outcomes"].add(repr(sorted(v[0] for v in viol)))
            for sig, detail in viol:
                if sig not in sigs:
                    sigs.add(sig)
                    res["viol"].append((sig, detail, dict(cfg, part="push")))
    res["outcomes"] = sorted(res["outcomes"])
    res["nontrivial"] = sorted(res["nontrivial"])
    return res


def run_case(case):
    if case.get("part") == "push":
        return run_push_case(case)
    cfg = case["cfg"]
    trees = SCENARIOS[cfg["scenario"]]
    order = case["order"]
    res = {"n": 0, "trans": 0, "states": [], "outcomes": set(), "nontrivial": set(), "viol": [],
           "vac": {"faults_fired": 0, "shared_file_failed": 0, "aborts": 0, "events_checked": 0}}
    sigs = set()
    initial = files_of_trees(trees)[:1] if cfg["initial"] == "partial" else []
    gone = [MD5[c] for c in cfg.get("src_missing", [])]
    uploads = [o for o in files_of_trees(trees) + [TREE_OID[t] for t in trees]
               if o not in initial and o not in gone]
    sh = shared_files(trees)
    nevents = None
    fail_sets = subsets(uploads) if not cfg.get("corrupt") else [()]
    if cfg["scenario"] == "bulk":
        # 2^1301 subsets are out of reach: no failure, the first / 1000th / 1001st / last file, the directory
        fl = sorted(files_of_trees(trees))
        fail_sets = [(), (fl[0],), (fl[999],), (fl[1000],), (fl[-1],), (TREE_OID[trees[0]],)]
    if cfg["scenario"] == "special":
        # 2^20 subsets are out of reach: no failure, every single object
        fail_sets = [()] + [(o,) for o in uploads]
    for fail in fail_sets:
        viol, info = one_exec(cfg, order, list(fail), None)
        if not fail:
            nevents = info["events"]
        res["n"] += 1
        res["trans"] += info["events"] + 2
        res["vac"]["faults_fired"] += info["fired"]
        res["vac"]["events_checked"] += info["events"]
        if any(f in sh for f in fail):
            res["vac"]["shared_file_failed"] += 1
        d = digest_obj((cfg, order, fail))
        res["states"].append(d)
        if fail and len(trees) > 1:
            res["nontrivial"].add(d)
        res["outcomes"].add(repr((sorted(v[0] for v in viol), info["events"], info["fired"])))
        for sig, detail in viol:
            if sig not in sigs:
                sigs.add(sig)
                res["viol"].append((sig, detail, {"cfg": cfg, "order": order, "fail": list(fail), "abort_at": None}))
    abort_points = range((nevents or 0) if not cfg.get("corrupt") else 0)
    if cfg["scenario"] == "bulk":
        abort_points = [k for k in (0, 1, 999, 1000, 1001, (nevents or 1) - 2, (nevents or 1) - 1) if 0 <= k < (nevents or 0)]
    for k in abort_points:
        viol, info = one_exec(cfg, order, [], k)
        res["n"] += 1
        res["trans"] += info["events"] + 2
        res["vac"]["aborts"] += 1 if info["aborted"] else 0
        d = digest_obj((cfg, order, "abort", k))
        res["states"].append(d)
        res["nontrivial"].add(d)
        for sig, detail in viol:
            sig = sig + "/after-abort"
            if sig not in sigs:
                sigs.add(sig)
                res["viol"].append((sig, detail, {"cfg": cfg, "order": order, "fail": [], "abort_at": k}))
    res["outcomes"] = sorted(res["outcomes"])[:50]
    res["nontrivial"] = sorted(res["nontrivial"])
    res["sample"] = {"cfg": cfg, "dir_order": [name_of(o) for o in order],
                     "failure_subsets": 2 ** len(uploads), "abort_points": nevents}
    return res


def replay(case):
    if case.get("part") == "push":
        return push_exec({k: v for k, v in case.items() if k != "part"})[0]
    viol, info = one_exec(case["cfg"], case["order"], case["fail"], case["abort_at"])
    if case["abort_at"] is not None:
        viol = [(s + "/after-abort", d) for s, d in viol]
    return viol


def configs(tier):
    scen = ["one", "disjoint", "sharing", "subset", "twopaths", "three"]
    if tier == "thorough":
        scen.append("twopaths+sharing")
    for s in scen:
        for dest in ("base", "local"):
            for index in (False, True):
                for request in ("closed", "expanded"):
                    for initial in ("empty", "partial"):
                        yield {"scenario": s, "dest": dest, "index": index, "request": request,
                               "initial": initial}
    # verify=True with corrupt (mismatching) source files: they must never complete a directory
    for s, bad in (("sharing", ["x"]), ("sharing", ["y"]), ("three", ["x"]), ("three", ["y", "z"]),
                   ("twopaths", ["w"]), ("subset", ["x"])):
        for dest in ("base", "local"):
            for index in (False, True):
                for request in ("closed", "expanded"):
                    yield {"scenario": s, "dest": dest, "index": index, "request": request,
                           "initial": "empty", "corrupt": bad}
    # uploads that fail with FileNotFoundError (ENOENT from the destination although the source object exists)
    for s in ("one", "sharing", "twopaths"):
        for dest in ("base", "local"):
            for index in (False, True):
                for request in ("closed", "expanded"):
                    yield {"scenario": s, "dest": dest, "index": index, "request": request,
                           "initial": "empty", "enoent": True}
    # stores of another algorithm (ids named md5-dos2unix; the contents are LF-only, so values coincide)
    for s in ("sharing", "three"):
        for dest in ("base", "local"):
            for request in ("closed", "expanded"):
                yield {"scenario": s, "dest": dest, "index": False, "request": request,
                       "initial": "empty", "hash_name": "md5-dos2unix"}
    # special file names (leading dots, "..", backslash, store suffixes, blanks, NFC / NFD twins, prefix siblings)
    for dest in ("base", "local"):
        for request in ("closed", "expanded"):
            yield {"scenario": "special", "dest": dest, "index": False, "request": request, "initial": "empty"}
    # one directory with 1300 files: crosses every batching / paging constant
    for dest in ("base", "local"):
        for index in (False, True):
            for request in ("closed", "expanded"):
                yield {"scenario": "bulk", "dest": dest, "index": index, "request": request, "initial": "empty"}
    # a listed file is missing from the source as well (cannot be delivered at all)
    for s, gone in (("one", ["y"]), ("sharing", ["y"]), ("sharing", ["x"]), ("three", ["z"])):
        for dest in ("base", "local"):
            for index in (False, True):
                for request in ("closed", "expanded"):
                    yield {"scenario": s, "dest": dest, "index": index, "request": request,
                           "initial": "empty", "src_missing": gone}


def run(ctx):
    ctx.rule = (
        "E3: for each tree set {one, disjoint, sharing a file, nested subset, one file under two paths, "
        "three pairwise-sharing (thorough: + two-paths+sharing)} x destination class x with/without remote "
        "index x closed/expanded request x destination empty/partially filled x every directory order: "
        "every subset of the objects to upload fails (2^n) and, fault-free, an abort at every upload event; "
        "closure invariant evaluated after every upload event and at the end, then a fault-free retry; index-level collect+push and collect+fetch of two directory entries sharing a file, with every subset of failing uploads and each listed file missing on both sides; "
        "non-trivial = >= 2 trees and >= 1 fault, or an abort"
    )
    ctx.bound = {"scenarios": {k: v for k, v in SCENARIOS.items()}, "max_objects": 7,
                 "orders": "all permutations of the directory objects"}
    ctx.assumptions = [
        "uploads fail before writing anything (OSError EIO from the destination file system's put_file)",
        "abort = BaseException raised at an upload event (process-kill granularity is explored by the "
        "crash engine of C15 for the store-to-store scenario)",
        "source store is local; requests are closed (directory + its files) or expanded (shallow=False)",
    ]
    ctx.require("faults_fired", "shared_file_failed", "aborts", "events_checked", "push_level_runs",
                "push_level_faults_fired")
    cs = []
    for direction in ("push", "fetch"):
        for index in (False, True):
            cs.append({"part": "push", "cfg": {"direction": direction, "index": index}})
    for cfg in configs(ctx.tier):
        trees = SCENARIOS[cfg["scenario"]]
        for perm in itertools.permutations([TREE_OID[t] for t in trees]):
            cs.append({"cfg": cfg, "order": list(perm)})
    ctx.run_cases("run_case", cs, chunksize=1, det=3)
