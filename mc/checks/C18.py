"""C18 push and fetch through storage mappings move exactly the reachable objects.

E1: every placement of storage prefixes {(), (d), (e,s)} with remote in
{none, R1, R2} and cache in {none, C1, C2} (root has both) x 3 indexes:
collect + push, fetch into empty caches, checkout.  E3: every subset of
failing uploads in the first push round, then a clean retry.
"""

import itertools
import os

from .. import ref
from ..lab import CONTENTS, LFS, MD5, make_odb, put_raw
from ..world import World, digest_obj, objects_only, store_snapshot, walk_files
from ..lab import BULK, BULK_MD5
from ..xfer import FaultFS, Plan

CONTENTS = dict(CONTENTS, **BULK)
MD5 = dict(MD5, **BULK_MD5)

def _pad_to_d(tree):
    """Add an empty file under a name chosen so that the directory's digest ends in the hex digit 'd'."""
    i = 0
    while True:
        t = dict(tree, **{f"pad{i}": "e"})
        if ref.tree_oid({r: MD5[c] for r, c in t.items()})[: -len(".dir")].endswith("d"):
            return t
        i += 1


# special names: a dot / no-dot pair, a name containing "..", a backslash; and a digest that ends in 'd'
D = _pad_to_d({"a": "y", "b/c": "z", ".h": "v", "h": "lf", "r..f": "bin", "n\\m": "crlf"})
E = {"k": "x", "m": "w"}          # shares x with the top-level file f
PREFIXES = [(), ("d",), ("e", "s")]

INDEXES = {
    "full": {("f",): ("file", "x"), ("d",): ("dir", D), ("e", "s"): ("dir", E), ("e", "g"): ("file", "y")},
    "dirs": {("d",): ("dir", D), ("e", "s"): ("dir", E)},
    "one": {("f",): ("file", "x"), ("d",): ("dir", D)},
    # a storage prefix (e,s) that lies strictly *inside* a directory entry given only as a directory object
    "inside": {("f",): ("file", "x"), ("e",): ("dir", {"s/k": "x", "s/m": "w", "g": "y"})},
    # one directory of 1300 files (beyond every batching constant); only used by the special runs
    "bulk": {("f",): ("file", "x"), ("d",): ("dir", {f"f{i:04d}": c for i, c in enumerate(BULK)})},
}
SIMPLE = {"": {"remote": "R1", "cache": "C1"}, "d": {"remote": None, "cache": None}, "e/s": {"remote": None, "cache": None}}


def tree_listing(t):
    return {r: MD5[c] for r, c in t.items()}


def reachable(entry):
    kind, v = entry
    if kind == "file":
        return {MD5[v]: CONTENTS[v]}
    lst = tree_listing(v)
    out = {ref.tree_oid(lst): ref.tree_bytes(lst)}
    for c in v.values():
        out[MD5[c]] = CONTENTS[c]
    return out


def expanded(entries):
    """[(full key, oid, bytes)] for every object reachable from the index: a directory object sits at its
    entry's key, each file it lists at entry key + relative path (that key decides its storage)."""
    out = []
    for key, (kind, v) in entries.items():
        if kind == "file":
            out.append((key, MD5[v], CONTENTS[v]))
        else:
            lst = tree_listing(v)
            out.append((key, ref.tree_oid(lst), ref.tree_bytes(lst)))
            for rel, c in v.items():
                out.append((key + tuple(rel.split("/")), MD5[c], CONTENTS[c]))
    return out


def designated(placement, key, role):
    """Longest prefix of key that has the role set; independent per role."""
    best = None
    for p in PREFIXES:
        if key[: len(p)] == p and placement.get(_k(p), {}).get(role):
            if best is None or len(p) > len(best[0]):
                best = (p, placement[_k(p)][role])
    return best[1] if best else None


def _k(p):
    return "/".join(p)


def cause_of(placement, key):
    """Which structural situation of the storage mapping an entry key is in (see known findings).

    collect() walks the storage prefixes in registration order with their *resolved* (fallen-back) roles and
    groups them by remote only: the first prefix of a group decides the cache for the whole group.
    """
    pc = max((p for p in PREFIXES if key[: len(p)] == p and placement[_k(p)]["cache"]), key=len)
    pr = max((p for p in PREFIXES if key[: len(p)] == p and placement[_k(p)]["remote"]), key=len)
    if pc != pr:
        return "cache-and-remote-designated-by-different-prefixes"
    my_remote, my_cache = designated(placement, key, "remote"), designated(placement, key, "cache")
    for q in PREFIXES:
        if placement[_k(q)]["cache"] or placement[_k(q)]["remote"]:
            if designated(placement, q, "remote") == my_remote and designated(placement, q, "cache") != my_cache:
                return "remote-shared-by-prefixes-with-different-caches"
    return "other"


def placements():
    for rr, rc in itertools.product(("R1", "R2"), ("C1", "C2")):
        for dr, dc in itertools.product((None, "R1", "R2"), (None, "C1", "C2")):
            for er, ec in itertools.product((None, "R1", "R2"), (None, "C1", "C2")):
                yield {"": {"remote": rr, "cache": rc}, "d": {"remote": dr, "cache": dc},
                       "e/s": {"remote": er, "cache": ec}}


class Lab:
    def __init__(self, w, suffix="", local_remote=False, verify=False):
        self.w = w
        self.ffs = {}
        self.stores = {}
        for c in ("C1", "C2"):
            self.stores[c] = make_odb("local", w.p("stores" + suffix, c))
        for r in ("R1", "R2"):
            from dvc_data.hashfile.db import HashFileDB

            f = FaultFS()
            f.store_root = w.p("stores", r)
            os.makedirs(f.store_root, exist_ok=True)
            self.ffs[r] = f
            cfg = {"tmp_dir": w.p("tmp", r)} if r == "R1" else {}
            if cfg:
                os.makedirs(cfg["tmp_dir"], exist_ok=True)
            if verify:
                cfg["verify"] = True   # what comes from this remote is verified on arrival
            if local_remote and r == "R1":
                # a remote that is a local directory (its existence query is an integrity check)
                from dvc_data.hashfile.db.local import LocalHashFileDB

                self.stores[r] = LocalHashFileDB(f, f.store_root, **cfg)
            else:
                self.stores[r] = HashFileDB(f, f.store_root, **cfg)

    def make_index(self, iname, placement, caches=None, order="short-first"):
        from dvc_data.hashfile.hash_info import HashInfo
        from dvc_data.hashfile.meta import Meta
        from dvc_data.index import DataIndex, DataIndexEntry, ObjectStorage

        caches = caches or self.stores
        idx = DataIndex()
        for key, (kind, v) in INDEXES[iname].items():
            if kind == "file":
                idx[key] = DataIndexEntry(key=key, meta=Meta(size=len(CONTENTS[v])),
                                          hash_info=HashInfo("md5", MD5[v]))
            else:
                idx[key] = DataIndexEntry(key=key, meta=Meta(isdir=True),
                                          hash_info=HashInfo("md5", ref.tree_oid(tree_listing(v))))
        for p in (PREFIXES if order == "short-first" else list(reversed(PREFIXES))):
            cfg = placement[_k(p)]
            if cfg.get("cache"):
                idx.storage_map.add_cache(ObjectStorage(p, caches[cfg["cache"]]))
            if cfg.get("remote"):
                idx.storage_map.add_remote(ObjectStorage(p, self.stores[cfg["remote"]]))
        return idx


def one_exec(iname, placement, fail, order="short-first", enoent=False, variant=None, damage=()):
    from dvc_data.index.checkout import apply, compare
    from dvc_data.index.collect import collect
    from dvc_data.index.fetch import fetch
    from dvc_data.index.push import push

    viol = []
    info = {"fired": 0, "pushed": None}
    entries = INDEXES[iname]
    with World() as w:
        lab = Lab(w, local_remote=variant == "local-remote-leftover", verify=variant == "damaged-remote-verify")
        ckw = {}
        if variant == "cache-index":
            # the collected per-remote indexes are kept in a persistent cache index that is reused by the retry
            from dvc_data.index import DataIndex

            ckw = {"cache_index": DataIndex.open(w.p("collect.sqlite")), "cache_key": ("push",)}
        if variant == "unprotected-cache":
            pass   # (applied after the caches are filled)
        if variant == "local-remote-leftover":
            # an interrupted earlier upload left a truncated, unprotected file under the name of the first object
            k0, o0, d0 = sorted(expanded(entries), key=lambda t: t[1])[0]
            pth = lab.stores["R1"].oid_to_path(o0)
            os.makedirs(os.path.dirname(pth), exist_ok=True)
            with open(pth, "wb") as fh:
                fh.write(d0[: len(d0) // 2])
        # populate the cache designated for each entry
        for key, oid, data in expanded(entries):
            put_raw(lab.stores[designated(placement, key, "cache")], oid, data)
        # the cache that holds a directory object also holds the files it lists (caches are closed), even
        # when a storage prefix inside the directory designates another cache for some of them
        for key, (kind, v) in entries.items():
            if kind == "dir":
                for c in v.values():
                    put_raw(lab.stores[designated(placement, key, "cache")], MD5[c], CONTENTS[c])
        if variant == "unprotected-cache":
            # every cache object is intact but was left writable (copied cache, interrupted add)
            for c in ("C1", "C2"):
                for dp, _dn, fns in os.walk(lab.stores[c].path):
                    for fn in fns:
                        os.chmod(os.path.join(dp, fn), 0o644)
        idx = lab.make_index(iname, placement, order=order)
        plans = {}
        for r, f in lab.ffs.items():
            plans[r] = f.plan = Plan(fail_oids=fail, enoent=enoent)
        before = {r: set(objects_only(store_snapshot(lab.stores[r].path))) for r in ("R1", "R2")}
        try:
            data = collect([idx], "remote", push=True, **ckw)
            pushed, failed = push(data)
        except Exception as e:  # noqa: BLE001
            import traceback

            viol.append((f"push-raises-{type(e).__name__}", f"{e!r} {traceback.format_exc()[-700:]}"))
            return viol, info
        info["fired"] = sum(p.fired for p in plans.values())
        info["pushed"] = (pushed, failed)
        after = {r: objects_only(store_snapshot(lab.stores[r].path)) for r in ("R1", "R2")}
        new_pairs = sum(len(set(after[r]) - before[r]) for r in after)
        if variant == "local-remote-leftover":
            pass   # (the leftover's name was there before: the count of new names says nothing)
        elif pushed != new_pairs:
            viol.append(("pushed-count-differs-from-objects-that-arrived", f"pushed={pushed} arrived={new_pairs} failed={failed}"))

        def remote_complete():
            miss = []
            snap = {r: objects_only(store_snapshot(lab.stores[r].path)) for r in ("R1", "R2")}
            for key, oid, data in expanded(entries):
                r = designated(placement, key, "remote")
                if oid not in snap[r] or snap[r][oid][0] != data:
                    miss.append((key, r, oid[:8]))
            return miss

        miss = remote_complete()
        if not fail:
            if miss:
                causes = {}

                allkeys = [k for k, _o, _d in expanded(entries)]
                for key, _r, _o in miss:
                    cause = cause_of(placement, key)
                    if cause == "other":
                        # a directory object is withheld when files it lists cannot be found: inherit their cause
                        kids = [cause_of(placement, k) for k in allkeys if len(k) > len(key) and k[: len(key)] == key]
                        known = sorted(c for c in kids if c != "other")
                        if known:
                            cause = known[0]
                    causes.setdefault(cause, []).append((key, _r, _o))
                for cause, ms in sorted(causes.items()):
                    viol.append((f"object-not-pushed-to-designated-remote/{cause}",
                                 f"{ms} placement={placement}"))
                return viol, info  # nothing to fetch back
            if failed:
                viol.append(("fault-free-push-reports-failures", f"{failed}"))
        else:
            if miss and not failed:
                viol.append(("push-incomplete-but-no-failure-reported", f"{miss}"))
            # closed: a directory object on a remote implies its files
            for r, snap in after.items():
                for oid in snap:
                    if oid.endswith(".dir"):
                        lst = ref.parse_listing(snap[oid][0]) or {}
                        gone = [h for h in lst.values() if h not in snap]
                        if gone:
                            viol.append(("remote-dir-object-without-its-files", f"{r} {oid[:8]} {gone}"))
            # clean retry completes
            for f in lab.ffs.values():
                f.plan = Plan()
            try:
                idx_r = lab.make_index(iname, placement, order=order)
                push(collect([idx_r], "remote", push=True, **ckw))
            except Exception as e:  # noqa: BLE001
                viol.append((f"retry-push-raises-{type(e).__name__}", repr(e)))
            miss2 = remote_complete()
            if miss2:
                viol.append(("clean-retry-after-failed-push-incomplete", f"{miss2} first-round fail={[o[:8] for o in fail]}"))
        for f in lab.ffs.values():
            f.plan = None
        if fail and remote_complete():
            return viol, info
        # fetch into empty caches
        fresh = {c: make_odb("local", w.p("fresh", c)) for c in ("C1", "C2")}
        if damage:
            # a failed fetch round: objects of a verifying remote are damaged (truncated / rewritten files); what
            # arrives broken must be counted failed and must not stay in the cache; then the remote is repaired
            saved = {}
            for r in ("R1", "R2"):
                for oid in damage:
                    pth = lab.stores[r].oid_to_path(oid)
                    if os.path.exists(pth):
                        saved[pth] = open(pth, "rb").read()
                        with open(pth, "wb") as fh:
                            fh.write(b"damaged:" + saved[pth][: len(saved[pth]) // 2])
            info["damaged"] = len(saved)
            try:
                f1, ff1 = fetch(collect([lab.make_index(iname, placement, caches=fresh, order=order)], "remote"))
            except Exception as e:  # noqa: BLE001
                # (a damaged directory object cannot be listed: refusing the whole round with an error is a
                # failure report too - nothing is claimed about its form, only about what reached the cache)
                if not any(o.endswith(".dir") for o in damage):
                    viol.append((f"fetch-raises-{type(e).__name__}", f"{e!r}"))
                    return viol, info
                f1 = ff1 = None
            got1 = {}
            for c in fresh:
                got1.update(objects_only(store_snapshot(fresh[c].path)))
            bad = sorted(o[:8] for o, (dta, _m) in got1.items() if isinstance(dta, bytes) and ref.md5(dta) != o.split(".")[0])
            if bad:
                viol.append(("verifying-fetch-left-mismatching-object-in-cache", f"{bad} fetched={f1} failed={ff1}"))
            if saved and f1 is not None and not ff1:
                viol.append(("undeliverable-object-but-no-failure-reported", f"fetched={f1} failed={ff1}"))
            if f1 is not None and f1 != len(got1):
                viol.append(("fetched-count-differs-from-objects-that-arrived", f"fetched={f1} arrived={len(got1)} failed={ff1}"))
            for pth, dta in saved.items():
                with open(pth, "wb") as fh:
                    fh.write(dta)
        idx2 = lab.make_index(iname, placement, caches=fresh, order=order)
        try:
            fetched, ffailed = fetch(collect([idx2], "remote"))
        except Exception as e:  # noqa: BLE001
            import traceback

            viol.append((f"fetch-raises-{type(e).__name__}", f"{e!r} {traceback.format_exc()[-700:]}"))
            return viol, info
        want_all = {}
        for ent in entries.values():
            want_all.update(reachable(ent))
        fsnap = {c: objects_only(store_snapshot(fresh[c].path)) for c in fresh}
        got_all = {}
        for c in fsnap:
            for oid, (data, _m) in fsnap[c].items():
                got_all[oid] = data
        if set(got_all) != set(want_all):
            viol.append(("fetched-set-differs-from-reachable-set",
                         f"missing={sorted(o[:8] for o in set(want_all) - set(got_all))} extra={sorted(o[:8] for o in set(got_all) - set(want_all))}"))
        for oid, data in got_all.items():
            if oid in want_all and data != want_all[oid]:
                viol.append(("fetched-object-has-wrong-bytes", oid[:8]))
        fmiss = {}
        for key, oid, _data in expanded(entries):
            c = designated(placement, key, "cache")
            if oid not in fsnap[c]:
                fmiss.setdefault(cause_of(placement, key), []).append((key, c, oid[:8]))
        for cause, ms in sorted(fmiss.items()):
            viol.append((f"object-not-fetched-into-designated-cache/{cause}", f"{ms} placement={placement}"))
        if fmiss:
            return viol, info  # a checkout from an incomplete cache says nothing new
        if ffailed:
            viol.append(("fault-free-fetch-reports-failures", f"{ffailed}"))
        new_c = sum(len(s) for s in fsnap.values())
        if fetched != new_c and not damage:
            viol.append(("fetched-count-differs-from-objects-that-arrived", f"fetched={fetched} arrived={new_c}"))
        # checkout from the fetched caches reproduces the data
        idx3 = lab.make_index(iname, placement, caches=fresh, order=order)
        out = w.p("out")
        errs = []
        try:
            apply(compare(None, idx3), out, LFS, storage="cache", onerror=lambda *a: errs.append(a))
        except Exception as e:  # noqa: BLE001
            viol.append((f"checkout-raises-{type(e).__name__}", repr(e)))
        want_files = {}
        for key, (kind, v) in entries.items():
            if kind == "file":
                want_files["/".join(key)] = CONTENTS[v]
            else:
                for rel, c in v.items():
                    want_files["/".join(key) + "/" + rel] = CONTENTS[c]
        if walk_files(out) != want_files or errs:
            viol.append(("checkout-from-fetched-cache-differs", f"errors={errs!r:.200}"))
    return viol, info


def run_case(case):
    res = {"n": 0, "trans": 0, "states": [], "outcomes": set(), "nontrivial": set(), "viol": [],
           "vac": {"faults_fired": 0, "multi_remote_placements": 0, "role_fallback_placements": 0}}
    sigs = set()
    placement = case["placement"]
    for iname in case["indexes"]:
        fails = [()]
        if case["faults"]:
            objs = {}
            for ent in INDEXES[iname].values():
                objs.update(reachable(ent))
            fails = list(itertools.chain.from_iterable(
                itertools.combinations(sorted(objs), r) for r in range(len(objs) + 1)))
        if case["faults"]:
            v0, _i0 = one_exec(iname, placement, [])
            if any(v[0].startswith("object-not-pushed-to-designated-remote/") for v in v0):
                # this placement already fails fault-free (reported by the fault-free part, see the
                # known findings): a failure round on top of it says nothing new
                res["vac"]["fault_rounds_skipped_on_defective_placement"] = res["vac"].get(
                    "fault_rounds_skipped_on_defective_placement", 0) + 1
                continue
        orders = ["short-first", "long-first"] if not case["faults"] else ["short-first"]
        runs = [(f, o, False) for f in fails for o in orders]
        # single failures also as FileNotFoundError (ENOENT from the remote although the source object exists)
        runs += [(f, orders[0], True) for f in fails if len(f) == 1]
        for fail, order, enoent in runs:
            viol, info = one_exec(iname, placement, list(fail), order, enoent)
            if enoent:
                viol = [(s_ + "/enoent", d_) for s_, d_ in viol]
                res["vac"]["enoent_faults"] = res["vac"].get("enoent_faults", 0) + info["fired"]
            res["n"] += 1
            res["trans"] += 4
            res["vac"]["faults_fired"] += info["fired"]
            d = digest_obj((iname, placement, fail, order))
            res["states"].append(d)
            rs = {placement[k]["remote"] for k in placement if placement[k]["remote"]}
            if len(rs) > 1:
                res["vac"]["multi_remote_placements"] += 1
                res["nontrivial"].add(d)
            if any(bool(placement[k]["remote"]) != bool(placement[k]["cache"]) for k in placement):
                res["vac"]["role_fallback_placements"] += 1
            res["outcomes"].add(repr((sorted(v[0] for v in viol), info["pushed"])))
            for sig, detail in viol:
                if sig not in sigs:
                    sigs.add(sig)
                    res["viol"].append((sig, detail, {"index": iname, "placement": placement, "fail": list(fail),
                                                      "order": order, "enoent": enoent}))
    if case.get("i") == 0:
        some = sorted(reachable(INDEXES["one"][("d",)]))
        specials = [("bulk", SIMPLE, [], "short-first", False, None),
                    ("one", SIMPLE, [], "short-first", False, "local-remote-leftover"),
                    ("full", SIMPLE, [], "short-first", False, "local-remote-leftover"),
                    ("one", SIMPLE, [], "short-first", False, "unprotected-cache"),
                    ("full", placement, [], "short-first", False, "unprotected-cache")]
        for fl in ([], [some[0]], [some[-1]], some[:2]):
            specials.append(("one", SIMPLE, fl, "short-first", False, "cache-index"))
            specials.append(("full", placement, fl, "short-first", False, "cache-index"))
        for iname_ in ("one", "full"):
            objs_ = {}
            for ent in INDEXES[iname_].values():
                objs_.update(reachable(ent))
            for dmg in [[o] for o in sorted(objs_)] + [sorted(objs_)[:2], sorted(objs_)]:
                specials.append((iname_, SIMPLE if iname_ == "one" else placement, [], "short-first", False,
                                 "damaged-remote-verify", dmg))
        for iname, pl, fl, order, enoent, variant, *dmg in specials:
            dmg = dmg[0] if dmg else []
            viol, info = one_exec(iname, pl, list(fl), order, enoent, variant, damage=dmg)
            if info.get("damaged"):
                res["vac"]["damaged_remote_fetch_rounds"] = res["vac"].get("damaged_remote_fetch_rounds", 0) + 1
            res["n"] += 1
            res["trans"] += 4
            res["vac"]["special_runs"] = res["vac"].get("special_runs", 0) + 1
            tag = variant or iname
            for sig, detail in viol:
                sig = f"{sig}/{tag}"
                if sig not in sigs:
                    sigs.add(sig)
                    res["viol"].append((sig, detail[:600], {"index": iname, "placement": pl, "fail": list(fl),
                                                            "order": order, "variant": variant, "tag": tag,
                                                            "damage": list(dmg)}))
    res["outcomes"] = sorted(res["outcomes"])[:40]
    res["nontrivial"] = sorted(res["nontrivial"])
    if case.get("i") == 100:
        res["sample"] = {"placement": placement, "indexes": case["indexes"]}
    return res


def replay(case):
    if case.get("tag"):
        v = one_exec(case["index"], case["placement"], case["fail"], case.get("order", "short-first"), False,
                     case.get("variant"), damage=case.get("damage", []))[0]
        return [(f"{s_}/{case['tag']}", d_) for s_, d_ in v]
    v = one_exec(case["index"], case["placement"], case["fail"], case.get("order", "short-first"),
                 case.get("enoent", False))[0]
    return [(s_ + "/enoent", d_) for s_, d_ in v] if case.get("enoent") else v


def run(ctx):
    ps = list(placements())
    ctx.rule = (
        f"E1: all {len(ps)} placements of storage prefixes (), (d), (e,s) with remote in {{none,R1,R2}} and cache "
        "in {none,C1,C2} (root has both; roles fall back independently) x 3 indexes (files, directory objects, a "
        "content shared between a file and a directory): collect+push, fetch into empty caches, checkout; E3: for "
        "12 (thorough 48) placements every subset of objects fails to upload in the first round (2^n, n <= 7), "
        "then a clean retry; a failed fetch round - each object (and two / all) of a verifying remote damaged - then the remote repaired and a clean retry; non-trivial = placement using both remotes"
    )
    ctx.bound = {"placements": len(ps), "indexes": {k: {"/".join(kk): str(v) for kk, v in x.items()} for k, x in INDEXES.items()}}
    ctx.assumptions = [
        "remotes are base-class stores on the local file system (fault injection needs a local destination); "
        "R1 has a remote index (tmp_dir), R2 has none",
        "over-pushing an object to an additional remote is allowed (designated remote must hold the reachable set)",
        "fetch: the union of the fresh caches must equal the reachable set exactly and each entry's objects must "
        "be in its designated cache",
    ]
    ctx.require("faults_fired", "multi_remote_placements", "role_fallback_placements", "enoent_faults", "special_runs", "damaged_remote_fetch_rounds")
    cs = []
    nf = 48 if ctx.tier == "thorough" else 12
    step = max(1, len(ps) // nf)
    for i, p in enumerate(ps):
        cs.append({"placement": p, "indexes": [k for k in INDEXES if k != "bulk"], "faults": False, "i": i})
    for i, p in enumerate(ps[::step][:nf]):
        cs.append({"placement": p, "indexes": ["full"] if ctx.tier == "thorough" else ["one"], "faults": True})
    ctx.run_cases("run_case", cs, chunksize=1, det=2)
