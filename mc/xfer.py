"""E3 driver: transfers between real stores with a fault-injecting destination FS.

* FaultFS: LocalFileSystem whose uploads (put_file / upload_fobj) can be made to
  fail (OSError EIO) for chosen destination paths, or abort (BaseException) at
  the k-th upload event; calls back after every event.
* order seam: the name `set` is shadowed in dvc_data.hashfile.transfer by an
  ordered set whose iteration order the explorer chooses (directory order), and
  `_add` is wrapped to order each batch.
"""

import errno
import itertools
import os

from . import ref
from .lab import (  # noqa: F401
    BULK,
    BULK_MD5,
    BULK_N,
    CONTENTS,
    LFS,
    MD5,
    SPECIAL,
    SPECIAL_MD5,
    SPECIAL_TREE,
    TWINS,
    TWINS_MD5,
    hi,
    make_odb,
    put_raw,
)
from .world import install_seams, objects_only, store_snapshot

install_seams()

from dvc_objects.fs.local import LocalFileSystem  # noqa: E402

import dvc_data.hashfile.transfer as T  # noqa: E402


class Abort(BaseException):
    pass


class Plan:
    def __init__(self, fail_oids=(), abort_at=None, on_event=None, enoent=False):
        self.fail_oids = set(fail_oids)
        self.enoent = enoent   # the injected failure is a FileNotFoundError (e.g. the remote directory vanished)
        self.abort_at = abort_at
        self.on_event = on_event
        self.events = []  # (kind, oid, outcome)
        self.fired = 0


class FaultFS(LocalFileSystem):
    """Destination file system; `plan` decides the fate of each upload."""

    plan = None
    store_root = None

    def _oid(self, path):
        rel = os.path.relpath(path, self.store_root)
        parts = rel.split(os.sep)
        if len(parts) == 2 and len(parts[0]) == 2 and not parts[1].endswith(".tmp"):
            return "".join(parts)
        return None

    def _before(self, kind, to_info):
        plan = self.plan
        if plan is None:
            return None
        oid = self._oid(to_info)
        n = len(plan.events)
        if plan.abort_at is not None and n == plan.abort_at:
            plan.events.append((kind, oid, "abort"))
            raise Abort(n)
        if oid is not None and oid in plan.fail_oids:
            plan.events.append((kind, oid, "fail"))
            plan.fired += 1
            if plan.on_event:
                plan.on_event(kind, oid, False)
            if plan.enoent:
                raise FileNotFoundError(errno.ENOENT, "injected upload failure", to_info)
            raise OSError(errno.EIO, "injected upload failure", to_info)
        return oid

    def _after(self, kind, oid):
        plan = self.plan
        if plan is None:
            return
        plan.events.append((kind, oid, "ok"))
        if plan.on_event:
            plan.on_event(kind, oid, True)

    def put_file(self, from_file, to_info, *a, **kw):
        oid = self._before("put", to_info)
        super().put_file(from_file, to_info, *a, **kw)
        self._after("put", oid)


# ---- order seam ----------------------------------------------------------------

_ORDER = {"key": None}


def _okey(h):
    k = _ORDER["key"]
    v = getattr(h, "value", h)
    if k and v in k:
        return (0, k.index(v), "")
    return (1, 0, str(v))


class OrdSet(set):
    def __iter__(self):
        return iter(sorted(set.__iter__(self), key=_okey))


_ORIG_ADD = T._add


def _ordered_add(src, dest, hash_infos, **kwargs):
    return _ORIG_ADD(src, dest, sorted(hash_infos, key=_okey), **kwargs)


def install_order_seam(order):
    """order: list of oids, earliest first (directories and files)."""
    _ORDER["key"] = list(order) if order is not None else None
    T.set = OrdSet
    T._add = _ordered_add
    if "set" not in T.__dict__ or T.__dict__["_add"] is not _ordered_add:
        raise SystemExit("HARNESS-ERROR order seam did not apply")


def remove_order_seam():
    T.__dict__.pop("set", None)
    T._add = _ORIG_ADD


# ---- universe ------------------------------------------------------------------

TREES = {
    "T1": {"a": "x", "b": "y"},
    "T2": {"a": "x", "c": "z"},
    "T3": {"p": "w", "q": "w"},          # one file under two paths
    "T4": {"a": "x"},                    # nested subset of T1
    "T5": {"c": "z", "d": "y"},          # with T1,T2: three pairwise-sharing
    "T6": {"s/k": "v", "s/t/e": "e"},    # disjoint from the others, nested, empty file
}
# one directory with BULK_N files (crosses every batching / paging constant)
TREES["TB"] = {f"f{i:04d}": f"bulk{i}" for i in range(BULK_N)}
TREES["TS"] = dict(SPECIAL_TREE)                      # special names (see lab.SPECIAL_NAMES)
TREES["TW"] = {"a": "tw1", "b": "tw2"}                # two objects sharing the two-character fan-out prefix
# listing keys no file system produces but a listing may carry: '.', empty and '..' components
TREES["TO"] = {"./a": "x", "a": "y", "d//g": "z", "d/g": "w", "s/../t": "v", "t": "e"}
MD5 = dict(MD5, **BULK_MD5, **SPECIAL_MD5, **TWINS_MD5)
CONTENTS = dict(CONTENTS, **BULK, **SPECIAL, **TWINS)
LISTING = {t: {rel: MD5[c] for rel, c in files.items()} for t, files in TREES.items()}
TREE_BYTES = {t: ref.tree_bytes(l) for t, l in LISTING.items()}
TREE_OID = {t: ref.md5(b) + ".dir" for t, b in TREE_BYTES.items()}
OID_TREE = {v: k for k, v in TREE_OID.items()}
FILE_OID = {c: MD5[c] for c in ("x", "y", "z", "w", "v", "e")}
OID_BYTES = {MD5[c]: CONTENTS[c] for c in FILE_OID}
OID_BYTES.update({BULK_MD5[c]: BULK[c] for c in BULK})
OID_BYTES.update({SPECIAL_MD5[c]: SPECIAL[c] for c in SPECIAL})
OID_BYTES.update({TWINS_MD5[c]: TWINS[c] for c in TWINS})
OID_BYTES.update({TREE_OID[t]: TREE_BYTES[t] for t in TREES})

SCENARIOS = {
    "one": ["T1"],
    "disjoint": ["T1", "T6"],
    "sharing": ["T1", "T2"],
    "subset": ["T1", "T4"],
    "twopaths": ["T3"],
    "three": ["T1", "T2", "T5"],
    "twopaths+sharing": ["T3", "T1", "T2"],
    "bulk": ["TB"],
    "special": ["TS"],
    "twins": ["TW", "T1"],
    "oddkeys": ["TO"],
}


def files_of_trees(trees):
    out = []
    for t in trees:
        for c in TREES[t].values():
            if MD5[c] not in out:
                out.append(MD5[c])
    return out


def name_of(oid):
    if oid in OID_TREE:
        return OID_TREE[oid]
    for c, o in FILE_OID.items():
        if o == oid:
            return c
    return oid[:6]


def fill_store(odb, oids):
    for o in oids:
        put_raw(odb, o, OID_BYTES[o])


def closure_violations(dest_path):
    """Directory objects present whose true listing is not fully present."""
    snap = objects_only(store_snapshot(dest_path))
    bad = []
    for oid in snap:
        if oid.endswith(".dir"):
            listing = LISTING.get(OID_TREE.get(oid))
            if listing is None:
                listing = ref.parse_listing(snap[oid][0]) or {}
            missing = sorted({h for h in listing.values() if h not in snap})
            if missing:
                bad.append((oid, missing))
    return bad, snap


def subsets(xs, maxn=None):
    xs = list(xs)
    for r in range(len(xs) + 1):
        if maxn is not None and r > maxn:
            break
        yield from itertools.combinations(xs, r)


class XWorld:
    """Source store (all objects), destination store on a FaultFS, optional index."""

    def __init__(self, w, trees, src_kind="local", dest_kind="base", use_index=False,
                 dest_initial=(), src_missing=(), verify=False, corrupt=(), hash_name="md5", dest_state=False):
        from dvc_data.hashfile.db import HashFileDB
        from dvc_data.hashfile.db.index import ObjectDBIndex
        from dvc_data.hashfile.db.local import LocalHashFileDB

        self.w = w
        self.trees = trees
        self.hash_name = hash_name
        # (the source directory's name extends the destination's: "dest" / "dest.src")
        self.src = make_odb(src_kind, w.p("dest.src"), hash_name=hash_name)
        allo = files_of_trees(trees) + [TREE_OID[t] for t in trees]
        fill_store(self.src, [o for o in allo if o not in src_missing])
        for o in corrupt:
            if o not in src_missing:
                put_raw(self.src, o, b"CORRUPT:" + OID_BYTES[o])
        self.ffs = FaultFS()
        self.ffs.store_root = w.p("dest")
        os.makedirs(w.p("dest"), exist_ok=True)
        cls = LocalHashFileDB if dest_kind == "local" else HashFileDB
        self.state = None
        skw = {}
        if dest_state:
            # the destination store keeps a hash-state database (as a local cache does)
            from dvc_data.hashfile.state import State

            self.state = State(root_dir=w.root, tmp_dir=w.p("dest.state"))
            skw["state"] = self.state
        self.dest = cls(self.ffs, w.p("dest"), verify=verify, hash_name=hash_name, **skw)
        fill_store(self.dest, dest_initial)
        self.index = None
        if use_index:
            self.index = ObjectDBIndex(w.p("idx"), "dest")
        self.delivered = set(dest_initial)

    def close(self):
        if self.index is not None:
            self.index.close()
        if self.state is not None:
            self.state.close()

    def request(self, trees, closed=True, extra_files=()):
        hn = self.hash_name
        ids = {hi(TREE_OID[t], hn) for t in trees}
        if closed:
            ids |= {hi(o, hn) for o in files_of_trees(trees)}
        ids |= {hi(o, hn) for o in extra_files}
        return ids

    def transfer(self, ids, plan=None, order=None, shallow=True, **kw):
        from dvc_data.hashfile.transfer import transfer

        self.ffs.plan = plan
        install_order_seam(order)
        try:
            return transfer(self.src, self.dest, ids, dest_index=self.index, shallow=shallow,
                            jobs=1, **kw)
        finally:
            remove_order_seam()
            self.ffs.plan = None
