"""Reference models -- deliberately boring and independent of dvc_data."""

import hashlib

_TEXT = set(range(32, 127)) | {10, 13, 9, 12, 8}


def md5(data: bytes) -> str:
    return hashlib.md5(data).hexdigest()  # noqa: S324


def is_text(block: bytes) -> bool:
    """Independent re-statement of the sniffing heuristic (first 512 bytes)."""
    block = block[:512]
    if len(block) == 0:
        return True
    if 0 in block:
        return False
    non = sum(1 for b in block if b not in _TEXT)
    return non * 100 <= 30 * len(block)


def md5_dos2unix(data: bytes) -> str:
    """Legacy digest for content that fits in one read."""
    if is_text(data):
        data = data.replace(b"\r\n", b"\n")
    return md5(data)


def digest(name: str, data: bytes) -> str:
    name = name.lower()
    if name == "md5-dos2unix":
        return md5_dos2unix(data)
    if name == "blake3":
        import blake3

        return blake3.blake3(data).hexdigest()
    return hashlib.new(name, data).hexdigest()


def _json_str(s: str) -> str:
    """json.dumps(s) with ensure_ascii=True, written out by hand."""
    out = ['"']
    for ch in s:
        o = ord(ch)
        if ch == '"':
            out.append('\\"')
        elif ch == "\\":
            out.append("\\\\")
        elif ch == "\n":
            out.append("\\n")
        elif ch == "\r":
            out.append("\\r")
        elif ch == "\t":
            out.append("\\t")
        elif ch == "\b":
            out.append("\\b")
        elif ch == "\f":
            out.append("\\f")
        elif o < 0x20 or o == 0x7F:
            out.append("\\u%04x" % o)
        elif o < 0x7F:
            out.append(ch)
        elif o < 0x10000:
            out.append("\\u%04x" % o)
        else:
            o -= 0x10000
            out.append("\\u%04x\\u%04x" % (0xD800 | (o >> 10), 0xDC00 | (o & 0x3FF)))
    out.append('"')
    return "".join(out)


def tree_bytes(entries, hash_key="md5") -> bytes:
    """Canonical listing: entries = {relpath: file digest}."""
    items = []
    for rel in sorted(entries):
        fields = sorted([(hash_key, entries[rel]), ("relpath", rel)])   # keys of an entry are sorted too
        items.append("{" + ", ".join("%s: %s" % (_json_str(k), _json_str(v)) for k, v in fields) + "}")
    return ("[" + ", ".join(items) + "]").encode("utf-8")


def tree_oid(entries, hash_key="md5") -> str:
    return md5(tree_bytes(entries, hash_key)) + ".dir"


def tree_of_files(files, name="md5"):
    """files: {relpath: bytes|(bytes, exec)} -> {relpath: digest}."""
    out = {}
    for rel, v in files.items():
        data = v[0] if isinstance(v, tuple) else v
        out[rel] = digest(name, data)
    return out


def parse_listing(data: bytes):
    """Parse a stored directory object independently: {relpath: md5} or None."""
    import json

    try:
        raw = json.loads(data.decode("utf-8"))
    except (ValueError, UnicodeDecodeError):
        return None
    if not isinstance(raw, list):
        return None
    out = {}
    for e in raw:
        if not isinstance(e, dict) or "relpath" not in e:
            return None
        h = e.get("md5")
        out[e["relpath"]] = h
    return out


def three_way(base, ours, theirs):
    """Per-key three-way merge of dicts; returns (merged, conflicts)."""
    merged, conflicts = {}, []
    for k in sorted(set(base) | set(ours) | set(theirs)):
        b, o, t = base.get(k), ours.get(k), theirs.get(k)
        if o == t:
            v = o
        elif o == b:
            v = t
        elif t == b:
            v = o
        else:
            conflicts.append(k)
            continue
        if v is not None:
            merged[k] = v
    return merged, conflicts
