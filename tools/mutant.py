#!/usr/bin/env python3
"""Run checks (and optionally the repo's test suite) against a patched scratch copy.

usage: tools/mutant.py <patch.diff> [--tests] [--tier quick] C06 C19 ...

The patch is applied with `git apply` semantics (paths relative to the repo
root) to a copy of /repo (src + tests) under /dev/shm; checks are pointed at it
with DVC_DATA_SRC, evidence/replays go to the scratch dir; everything is removed
afterwards.  /repo itself is never touched.
"""

import os
import shutil
import subprocess
import sys
import tempfile

PY = "/venv/bin/python"


def main():
    args = sys.argv[1:]
    patch = os.path.abspath(args.pop(0))
    tests = "--tests" in args
    if tests:
        args.remove("--tests")
    tier = "quick"
    if "--tier" in args:
        i = args.index("--tier")
        tier = args[i + 1]
        del args[i : i + 2]
    base = "/dev/shm" if os.path.isdir("/dev/shm") else tempfile.gettempdir()
    d = tempfile.mkdtemp(prefix="mut.", dir=base)
    rc_all = {}
    try:
        subprocess.check_call(
            ["rsync", "-a", "--exclude", ".git", "--exclude", "__pycache__", "/repo/", d + "/repo/"]
        )
        r = subprocess.run(["patch", "-p1", "-s", "-d", d + "/repo", "-i", patch])
        if r.returncode != 0:
            print("PATCH-FAILED")
            return 3
        env = dict(os.environ)
        env["DVC_DATA_SRC"] = d + "/repo/src"
        env["MC_EVIDENCE_DIR"] = d + "/evidence"
        env["MC_REPLAY_DIR"] = d + "/replays"
        env["PYTHONDONTWRITEBYTECODE"] = "1"
        if tests:
            e2 = dict(env)
            e2["PYTHONPATH"] = d + "/repo/src"
            r = subprocess.run(
                [PY, "-m", "pytest", "-q", "-p", "no:cacheprovider", "--timeout=900",
                 "--continue-on-collection-errors"],
                cwd=d + "/repo", env=e2, capture_output=True, text=True,
            )
            tail = (r.stdout.strip().splitlines() or [""])[-1]
            print(f"TESTS rc={r.returncode} {tail}")
            rc_all["tests"] = r.returncode
        for pid in args:
            r = subprocess.run(
                [PY, "-m", "mc", "check", pid, "--tier", tier],
                cwd="/verif", env=env, capture_output=True, text=True,
            )
            out = r.stdout.strip().splitlines()
            vio = [l for l in out if l.startswith(("VIOLATION", "HARNESS-ERROR", "KNOWN-FINDING"))]
            sigs = [l.strip() for l in out if l.strip().startswith("signature=")]
            print(f"CHECK {pid} rc={r.returncode} :: {out[-1] if out else ''}")
            for l in (vio + sigs)[:12]:
                print("   ", l[:300])
            if r.returncode == 2:
                print("\n".join(out[-15:]))
                print(r.stderr[-2000:])
            rc_all[pid] = r.returncode
    finally:
        shutil.rmtree(d, ignore_errors=True)
    return 0


if __name__ == "__main__":
    sys.exit(main())
