"""C09 index checkout converges to the target from any workspace state.

E2 (depth 1-2): every (prior workspace, target index) pair over nested trees
with file<->directory kind changes at depth 1 and 2 x delete on/off x target
form (explicit entries / lazily loaded directory objects) x link type; real
build + md5 + compare + apply, then a second compare.
"""

import itertools
import os
import stat

from .. import ref
from ..lab import LFS, make_odb, put_raw
from ..world import World, digest_obj, walk_dirs, walk_files, write_file

CONT = {"c1": b"one", "c2": b"two!", "c3": b"3" * (2**21 + 1)}   # c3 is above the index builder's large-file threshold


def file_variants(tier, side):
    v = [("c1", False), ("c2", False)]
    if tier == "thorough" or side == "target":
        v.append(("c1", True))
    return v


def gen_trees(tier, side):
    """Well-formed trees: {relpath: (content, exec)} plus a set of (possibly empty) dirs."""
    fv = file_variants(tier, side)
    a_forms = [{}] + [{"a": f} for f in fv] + [{"a/z": f} for f in fv]
    s_forms = [{}] + [{"d/s": f} for f in fv] + [{"d/s/y": f} for f in fv]
    x_forms = [{}] + [{"d/x": f} for f in fv]
    d_forms = [{}] + [{"d": f} for f in fv]
    for xf in x_forms:
        for sf in s_forms:
            m = dict(xf)
            m.update(sf)
            if m:
                d_forms.append(m)
    out = []
    for a in a_forms:
        for d in d_forms:
            t = dict(a)
            t.update(d)
            out.append(t)
    # three levels below the top: intermediate directories that hold no file themselves
    for f in fv[:2]:
        out.append({"d/s/t/y": f})
        out.append({"d/s/t/y": f, "d/x": fv[0]})
        out.append({"a/z": f, "d/s/t/y": f, "d/s/t/w": fv[1]})
    return out


def dirs_of(tree):
    out = set()
    for rel in tree:
        parts = rel.split("/")
        for i in range(1, len(parts)):
            out.add("/".join(parts[:i]))
    return out


def fill_cache(odb, missing=(), big=False):
    for c, data in CONT.items():
        if c not in missing and (big or c != "c3"):
            put_raw(odb, ref.md5(data), data)


def make_target(tree, form, odb, second_fs=False, empty_dirs=()):
    from dvc_data.hashfile.hash_info import HashInfo
    from dvc_data.hashfile.meta import Meta
    from dvc_data.index import DataIndex, DataIndexEntry, ObjectStorage

    idx = DataIndex()
    if form in ("explicit", "files"):
        # "files": file entries only - the directories above them are implicit in the target
        for d in (dirs_of(tree) if form == "explicit" else ()):
            k = tuple(d.split("/"))
            idx[k] = DataIndexEntry(key=k, meta=Meta(isdir=True), loaded=True)
        for rel, (c, ex) in tree.items():
            k = tuple(rel.split("/"))
            idx[k] = DataIndexEntry(key=k, meta=Meta(size=len(CONT[c]), isexec=ex),
                                    hash_info=HashInfo("md5", ref.md5(CONT[c])))
    else:
        tops = {rel.split("/")[0] for rel in tree}
        for top in tops:
            if top in tree:
                c, ex = tree[top]
                idx[(top,)] = DataIndexEntry(key=(top,), meta=Meta(size=len(CONT[c]), isexec=ex),
                                             hash_info=HashInfo("md5", ref.md5(CONT[c])))
            else:
                listing = {rel[len(top) + 1:]: ref.md5(CONT[c]) for rel, (c, _e) in tree.items()
                           if rel.startswith(top + "/")}
                oid = ref.tree_oid(listing)
                put_raw(odb, oid, ref.tree_bytes(listing))
                idx[(top,)] = DataIndexEntry(key=(top,), meta=Meta(isdir=True),
                                             hash_info=HashInfo("md5", oid))
    for dname in empty_dirs:
        # a directory object whose listing is empty ([]), given lazily
        oid0 = ref.tree_oid({})
        put_raw(odb, oid0, ref.tree_bytes({}))
        idx[(dname,)] = DataIndexEntry(key=(dname,), meta=Meta(isdir=True), hash_info=HashInfo("md5", oid0))
    idx.storage_map.add_cache(ObjectStorage((), odb))
    if form == "explicit" and second_fs:
        # entries below d/ are served by a second cache that lives on another (in-memory) file system
        from dvc_objects.fs.memory import MemoryFileSystem

        from dvc_data.hashfile.db import HashFileDB

        mfs = MemoryFileSystem()
        mroot = f"memory://c09-second-cache-{os.getpid()}-{id(idx)}"
        modb = HashFileDB(mfs, mroot)
        for rel, (c, _ex) in tree.items():
            if rel.startswith("d/"):
                oid = ref.md5(CONT[c])
                mpath = modb.oid_to_path(oid)
                mfs.makedirs(mfs.parent(mpath), exist_ok=True)
                mfs.pipe_file(mpath, CONT[c])
                lp = odb.oid_to_path(oid)
                if os.path.exists(lp) and not any(cc == c and not r2.startswith("d/") for r2, (cc, _e) in tree.items()):
                    os.chmod(lp, 0o644)
                    os.unlink(lp)   # only the second cache has it
        idx.storage_map.add_cache(ObjectStorage(("d",), modb))
    return idx


DIR_DAMAGE = ["missing", "no-relpath", "not-json", "not-a-list", "storage-raises"]


class _StorageError(Exception):
    """What a remote file system may raise on its own (an authentication / quota error): not an OSError."""


def one_exec(prior, target, form, delete, link, missing=(), missing_dir=None, hashless=False, handler="default",
             second_fs=False, dangling=(), old_by="md5", empty_dirs=(), dir_damage="missing", retry=False,
             unknown=()):
    from dvc_data.index import build as ibuild
    from dvc_data.index import md5 as imd5
    from dvc_data.index.checkout import apply, compare

    viol = []
    info = {"errors": 0, "chmod_left": 0}
    with World() as w:
        ws = w.mkdir("ws")
        for rel, (c, ex) in prior.items():
            write_file(os.path.join(ws, *rel.split("/")), CONT[c], ex)
        for rel in dangling:
            # a dangling symlink in the prior workspace (e.g. a symlinked checkout whose cache object is gone)
            pth = os.path.join(ws, *rel.split("/"))
            os.makedirs(os.path.dirname(pth), exist_ok=True)
            os.symlink(w.p("nowhere", rel.replace("/", "_")), pth)
        ofs = None
        if missing_dir and dir_damage == "storage-raises":
            from ..lab import RmFaultFS

            class _FS(RmFaultFS):
                broken = None

                def open(self, path, *a, **kw):
                    if self.broken and path == self.broken:
                        raise _StorageError("injected: storage refuses to serve " + path)
                    return super().open(path, *a, **kw)

            ofs = _FS()
        odb = make_odb("local", w.p("cache"), type=[link], **({"fs": ofs} if ofs else {}))
        fill_cache(odb, missing, big=any(c == "c3" for c, _e in list(prior.values()) + list(target.values())))
        tgt = make_target(target, form, odb, second_fs, empty_dirs)

        def ws_index():
            if old_by == "build_entries":
                # the workspace index computed in one pass (listing + hashing, as a status / diff command does)
                from dvc_data.index import DataIndex
                from dvc_data.index.build import build_entries

                ix = DataIndex()
                for e in build_entries(ws, LFS, compute_hash=True):
                    ix[e.key] = e
                return ix
            return ibuild(ws, LFS) if hashless else imd5(ibuild(ws, LFS))
        if missing_dir:
            # the directory object of this (lazily loaded) top-level directory is not in storage
            ent = tgt[(missing_dir,)]
            dpath = odb.oid_to_path(ent.hash_info.value)
            dbytes = open(dpath, "rb").read()
            os.chmod(dpath, 0o644)
            if dir_damage == "missing":
                os.unlink(dpath)
            elif dir_damage == "storage-raises":
                ofs.broken = dpath
            else:
                # the object is there but is not a directory listing: an item without its path, bytes that are
                # not JSON, JSON that is not a list
                import json as _json

                items = _json.loads(dbytes)
                bad = {"no-relpath": _json.dumps([{k: v for k, v in items[0].items() if k != "relpath"}] + items[1:]).encode(),
                       "not-json": b"\x00\xffnot json at all", "not-a-list": b'{"relpath": "x", "md5": "y"}'}[dir_damage]
                with open(dpath, "wb") as fh:
                    fh.write(bad)
        # the first compare may be given a workspace index without content hashes
        old = ws_index()
        for rel in unknown:
            # a file the workspace index does not know about (ignored by the application's filter, or created
            # after the index was built) in a directory that is to go
            write_file(os.path.join(ws, *rel.split("/")), b"unknown to the index")
        before_l = {rel: os.lstat(os.path.join(ws, *rel.split("/"))).st_ino for rel in prior}
        errors = []
        told = []
        if handler == "collect":
            # an application-installed, non-raising load-error handler on the target index
            tgt.onerror = lambda entry, exc: told.append(entry.key)
        try:
            diff = compare(old, tgt, delete=delete)
            # with an unavailable source dvc itself applies with update_meta=False (the default
            # re-stats every created path and raises after the callback has reported the entry)
            apply(diff, ws, LFS, storage="cache", onerror=lambda *a: errors.append(a),
                  update_meta=not (missing or missing_dir))
        except Exception as e:  # noqa: BLE001
            import traceback

            viol.append((f"checkout-raises-{type(e).__name__}", f"{e!r} {traceback.format_exc()[-500:]}"))
            return viol, info
        info["errors"] = len(errors)
        got = walk_files(ws)
        gotd = walk_dirs(ws)
        want = {rel: CONT[c] for rel, (c, _e) in target.items()}
        unavailable = {rel for rel, (c, _e) in target.items() if c in missing}
        if missing_dir:
            info["snap"] = (sorted(got.items()), sorted(gotd))
            if handler == "collect" and (missing_dir,) not in told:
                viol.append(("index-error-handler-not-told-about-unloadable-directory", f"{missing_dir}: {told}"))
            reported = {os.path.relpath(a[1], ws).replace(os.sep, "/") for a in errors if len(a) > 1 and a[1]}
            if missing_dir not in reported:
                had = "workspace-has-that-directory" if os.path.isdir(os.path.join(ws, missing_dir)) and \
                    missing_dir in dirs_of(prior) else "workspace-lacks-that-directory"
                viol.append((f"unloadable-directory-silently-skipped/{had}",
                             f"{missing_dir}: errors={errors!r:.200} prior={sorted(prior)}"))
            for rel in want:
                if not rel.startswith(missing_dir + "/") and delete and got.get(rel) != want[rel]:
                    viol.append(("available-entry-not-created-when-a-directory-is-unloadable", rel))
            if not retry or viol:
                return viol, info
            # recovery: the directory object is back in storage and the same calls are repeated with the SAME
            # target index object; from here on the run is judged like any other
            if ofs is not None:
                ofs.broken = None
            else:
                with open(dpath, "wb") as fh:
                    fh.write(dbytes)
                os.chmod(dpath, 0o444)
            errors.clear()
            try:
                apply(compare(ws_index(), tgt, delete=delete), ws, LFS, storage="cache",
                      onerror=lambda *a: errors.append(a))
            except Exception as e:  # noqa: BLE001
                viol.append((f"checkout-raises-{type(e).__name__}", f"on the retry: {e!r}"))
                return viol, info
            info["retried"] = 1
            got = walk_files(ws)
            gotd = walk_dirs(ws)
        if missing:
            # entries whose source is unavailable are reported, not silently skipped
            reported = {os.path.relpath(a[1], ws).replace(os.sep, "/") for a in errors if len(a) > 1 and a[1]}
            if form == "explicit":
                for rel in unavailable:
                    # (a dangling symbolic link is not the entry either)
                    if rel not in reported and not isinstance(got.get(rel), bytes):
                        viol.append(("unavailable-entry-silently-skipped", f"{rel} errors={errors!r:.200} link={link}"))
            for rel in set(want) - unavailable:
                if form == "explicit" and got.get(rel) != want[rel] and delete:
                    viol.append(("available-entry-not-created-when-another-is-unavailable", rel))
            return viol, info
        if unknown:
            keep = set()
            for rel in unknown:
                if got.pop(rel, None) != b"unknown to the index":
                    viol.append(("file-unknown-to-the-index-removed", rel))
                parts = rel.split("/")
                keep |= {"/".join(parts[:i]) for i in range(1, len(parts))}
            gotd = gotd - (keep - dirs_of(target))
        if delete:
            if got != want:
                lost = sorted(set(want) - set(got))
                extra = sorted(set(got) - set(want))
                diffb = sorted(k for k in set(got) & set(want) if got[k] != want[k])
                kind = "missing-target-file" if lost else ("leftover-file" if extra else "wrong-bytes")
                viol.append((f"workspace-differs-from-target/{kind}",
                             f"lost={lost} extra={extra} differ={diffb} errors={len(errors)}"))
            wantd = dirs_of(target) | set(empty_dirs)
            if not wantd <= gotd:
                viol.append(("target-directory-missing", f"{sorted(wantd - gotd)}"))
            if gotd - wantd:
                deep = any("/" in d for d in gotd - wantd)
                viol.append((f"leftover-directory/{'nested' if deep else 'top'}",
                             f"{sorted(gotd - wantd)} prior={sorted(prior)} target={sorted(target)}"))
            for rel, (_c, ex) in target.items():
                p = os.path.join(ws, *rel.split("/"))
                if form == "lazy" and "/" in rel:
                    continue  # a directory object carries no exec bit
                if ex and os.path.isfile(p) and not os.stat(p).st_mode & stat.S_IXUSR:
                    viol.append(("executable-entry-not-executable", rel))
            if unknown:
                return viol, info   # (the workspace index of a second compare would know the file)
            # second compare: nothing left to create or delete
            tgt2 = make_target(target, form, odb, second_fs, empty_dirs)
            if old_by == "build_entries":
                # a file that is the same in the prior workspace and in the target is left alone
                for rel, (c, _e) in target.items():
                    if prior.get(rel, (None,))[0] == c and rel in before_l:
                        pth = os.path.join(ws, *rel.split("/"))
                        if os.path.lexists(pth) and os.lstat(pth).st_ino != before_l[rel]:
                            viol.append(("unchanged-file-rewritten", rel))
            try:
                hashless = False
                d2 = compare(ws_index(), tgt2, delete=True)
                left = {n: [e.key for e in getattr(d2, n)] for n in
                        ("files_delete", "dirs_delete", "files_create", "dirs_create")}
                info["chmod_left"] = len(d2.files_chmod)
                if any(left.values()):
                    viol.append(("second-compare-not-empty", f"{ {k: v for k, v in left.items() if v} }"))
            except Exception as e:  # noqa: BLE001
                viol.append((f"second-compare-raises-{type(e).__name__}", repr(e)))
            if errors:
                viol.append(("error-callback-although-all-sources-available", repr(errors)[:300]))
        else:
            tkeys = set(want) | dirs_of(target)
            for rel, (c, _e) in prior.items():
                parts = rel.split("/")
                inside = rel in tkeys or any("/".join(parts[:i]) in want for i in range(1, len(parts))) \
                    or any(t.startswith(rel + "/") for t in tkeys)
                if not inside and got.get(rel) != CONT[c]:
                    viol.append(("file-outside-target-removed-without-delete", f"{rel}"))
    return viol, info


def run_case(case):
    res = {"n": 0, "trans": 0, "states": [], "outcomes": set(), "nontrivial": set(), "viol": [],
           "vac": {"kind_changes": 0, "nested_kind_changes": 0, "exec_targets": 0, "unavailable_runs": 0,
                   "chmod_left_observed": 0}}
    sigs = set()
    tier = case["tier"]
    priors = gen_trees(tier, "prior")
    targets = gen_trees(tier, "target")
    prior = priors[case["i"]]
    pd = dirs_of(prior)
    for j, target in enumerate(targets):
        td = dirs_of(target)
        kc = [k for k in (set(prior) & td) | (set(target) & pd)]
        for form in ("explicit", "lazy", "files"):
            for delete in (True, False):
                if form == "files" and not delete:
                    continue
                if not delete and form == "lazy" and case["tier"] != "thorough":
                    continue
                links = case["links"] if form != "files" else ["copy"]
                for link in links + (["copy/hashless-old"] if form != "files" else []):
                    hashless = link.endswith("hashless-old")
                    if hashless and not delete:
                        continue
                    link = link.split("/")[0]
                    viol, info = one_exec(prior, target, form, delete, link, hashless=hashless)
                    if form == "files":
                        viol = [(f"{s_}/files-only-target", d_) for s_, d_ in viol]
                        res["vac"]["files_only_targets"] = res["vac"].get("files_only_targets", 0) + 1
                    res["n"] += 1
                    res["trans"] += 4
                    res["vac"]["chmod_left_observed"] += info["chmod_left"]
                    res["outcomes"].add(repr(sorted(v[0] for v in viol)))
                    for sig, detail in viol:
                        if sig not in sigs:
                            sigs.add(sig)
                            res["viol"].append((sig, detail, {"prior": prior, "target": target, "form": form,
                                                              "delete": delete, "link": link, "missing": [],
                                                              "hashless": hashless}))
        d = digest_obj((prior, target))
        res["states"].append(d)
        if prior and target and prior != target:
            res["nontrivial"].add(d)
        if kc:
            res["vac"]["kind_changes"] += 1
            if any("/" in k for k in kc):
                res["vac"]["nested_kind_changes"] += 1
        if any(ex for (_c, ex) in target.values()):
            res["vac"]["exec_targets"] += 1
    # unavailable source
    for target in targets[:: max(1, len(targets) // 12)]:
        if not any(c == "c2" for (c, _e) in target.values()):
            continue
        for delete in (True, False):
          for ulink in ("copy", "hardlink", "symlink"):
            viol, info = one_exec(prior, target, "explicit", delete, ulink, missing=["c2"])
            res["n"] += 1
            res["trans"] += 2
            res["vac"]["unavailable_runs"] += 1
            for sig, detail in viol:
                sig = sig + ("" if ulink == "copy" else f"/{ulink}")
                if sig not in sigs:
                    sigs.add(sig)
                    res["viol"].append((sig, detail, {"prior": prior, "target": target, "form": "explicit",
                                                      "delete": delete, "link": ulink, "missing": ["c2"]}))
    # a directory object that cannot be loaded
    for target in targets[:: max(1, len(targets) // 16)]:
        tops = sorted({rel.split("/")[0] for rel in target if "/" in rel})
        for top in tops:
            for delete in (True, False):
                viol, info = one_exec(prior, target, "lazy", delete, "copy", missing_dir=top)
                viol2, info2 = one_exec(prior, target, "lazy", delete, "copy", missing_dir=top, handler="collect")
                viol = list(viol) + [(s_ + "/collecting-handler", d_) for s_, d_ in viol2]
                # the other ways a directory object can be unavailable; and the retry once it is back
                for dmg in DIR_DAMAGE:
                    for hd in ("default", "collect"):
                        if dmg != "missing":
                            v3, _i3 = one_exec(prior, target, "lazy", delete, "copy", missing_dir=top, handler=hd,
                                               dir_damage=dmg)
                            viol += [(f"{s_}/{dmg}" + ("/collecting-handler" if hd == "collect" else ""), d_)
                                     for s_, d_ in v3]
                            res["n"] += 1
                            res["vac"]["damaged_dir_object_runs"] = res["vac"].get("damaged_dir_object_runs", 0) + 1
                        v4, i4 = one_exec(prior, target, "lazy", delete, "copy", missing_dir=top, handler=hd,
                                          dir_damage=dmg, retry=True)
                        viol += [(f"{s_}/retry-after-{dmg}" + ("/collecting-handler" if hd == "collect" else ""), d_)
                                 for s_, d_ in v4]
                        res["n"] += 1
                        res["vac"]["retries_after_unloadable_dir"] = res["vac"].get("retries_after_unloadable_dir", 0) \
                            + i4.get("retried", 0)
                if info.get("snap") is not None and info2.get("snap") is not None and info["snap"] != info2["snap"]:
                    viol.append(("unloadable-directory-outcome-depends-on-the-load-error-handler",
                                 f"{top}: default {info['snap'][1]} vs collecting {info2['snap'][1]}"))
                res["n"] += 2
                res["trans"] += 4
                res["vac"]["unloadable_dir_runs"] = res["vac"].get("unloadable_dir_runs", 0) + 2
                for sig, detail in viol:
                    if sig not in sigs:
                        sigs.add(sig)
                        res["viol"].append((sig, detail, {"prior": prior, "target": target, "form": "lazy",
                                                          "delete": delete, "link": "copy", "missing": [],
                                                          "missing_dir": top, "sig": sig}))
    # special shapes, once (with the first prior): a second cache on another file system, dangling links in the
    # prior workspace, a workspace index computed by build_entries() with a file above the large-file threshold
    if case["i"] == 0:
        specials = []
        for tgt in ({"a": ("c1", False), "d/x": ("c2", False), "d/s/y": ("c1", True)},
                    {"d/x": ("c1", False)}, {"a": ("c2", False), "d/s": ("c2", False)}):
            for pr in ({}, {"d/x": ("c1", False)}, {"a": ("c1", False), "d": ("c2", False)}):
                for delete in (True, False):
                    specials.append((pr, tgt, dict(second_fs=True), delete))
        for dl in (["dl"], ["d/dl"], ["dl", "d/s/dl"]):
            for pr in ({}, {"d/x": ("c1", False)}):
                for tgt in ({"a": ("c1", False)}, {"d/x": ("c1", False)}, {"d/s/y": ("c2", False)}):
                    # (index.md5() drops entries whose file cannot be read, so the workspace index is the plain
                    # listing or the one-pass build_entries() here)
                    specials.append((pr, tgt, dict(dangling=dl, hashless=True), True))
                    specials.append((pr, tgt, dict(dangling=dl, old_by="build_entries"), True))
        for pr, tgt in (({"d/big": ("c3", False), "d/x": ("c1", False)}, {"d/big": ("c3", False), "d/x": ("c2", False)}),
                        ({"big": ("c3", False)}, {"big": ("c3", False), "a": ("c1", False)}),
                        ({"d/big": ("c3", False), "d/big2": ("c3", False)}, {"d/big": ("c3", False)}),
                        ({"a": ("c1", False)}, {"a": ("c1", False), "d/big": ("c3", False)})):
            specials.append((pr, tgt, dict(old_by="build_entries"), True))
        # names that extend the second cache's prefix "d" as strings only; a backslash in a lazily listed name;
        # an empty directory object
        for pr in ({}, {"d/x": ("c2", False)}):
            specials.append((pr, {"d/x": ("c1", False), "d.bak/x": ("c2", False), "dz": ("c1", False)}, dict(second_fs=True), True))
            specials.append((pr, {"d/back\\slash": ("c1", False), "d/back/slash": ("c2", False)}, dict(form="lazy"), True))
            specials.append((pr, {"a": ("c1", False)}, dict(form="lazy", empty_dirs=["z0"]), True))
            specials.append((pr, {"a": ("c1", False)}, dict(empty_dirs=["z0"]), True))
        # a file the workspace index does not know about sits in one of several directories that are to go
        for pr in ({"d/s/y": ("c1", False), "a/z": ("c2", False), "e/f/g": ("c1", False)},
                   {"d/s/y": ("c1", False), "d/x": ("c2", False), "a/z": ("c2", False)}):
            for unk in (["d/s/ignored"], ["d/ignored"], ["a/ignored"], ["e/f/ignored"], ["d/s/ignored", "a/ignored"]):
                if not all(u.split("/")[0] in {r.split("/")[0] for r in pr} for u in unk):
                    continue
                for tgt in ({}, {"k": ("c1", False)}, {"a/z": ("c2", False)}):
                    specials.append((pr, tgt, dict(unknown=unk), True))
        for pr, tgt, kw, delete in specials:
            kw = dict(kw)
            form_ = kw.pop("form", "explicit")
            viol, info = one_exec(pr, tgt, form_, delete, "copy", **kw)
            kw["form"] = form_
            res["n"] += 1
            res["trans"] += 4
            res["vac"]["special_shape_runs"] = res["vac"].get("special_shape_runs", 0) + 1
            tag = "second-fs" if kw.get("second_fs") else ("dangling-link" if kw.get("dangling") else
                                                           "build_entries" if kw.get("old_by") else
                                                           "file-unknown-to-the-index" if kw.get("unknown") else "special-names")
            if kw.get("unknown"):
                res["vac"]["unknown_file_runs"] = res["vac"].get("unknown_file_runs", 0) + 1
            for sig, detail in viol:
                sig = f"{sig}/{tag}"
                if sig not in sigs:
                    sigs.add(sig)
                    res["viol"].append((sig, detail, {"prior": pr, "target": tgt, "form": "explicit", "delete": delete,
                                                      "link": "copy", "missing": [], "special": kw, "tag": tag}))
    res["outcomes"] = sorted(res["outcomes"])
    res["nontrivial"] = sorted(res["nontrivial"])
    if case["i"] == 9:
        res["sample"] = {"prior": prior, "targets": len(targets), "forms": ["explicit", "lazy"],
                         "delete": [True, False], "links": case["links"]}
    return res


def replay(case):
    fix = lambda t: {k: tuple(v) for k, v in t.items()}  # noqa: E731
    if case.get("special"):
        sp = dict(case["special"])
        v = one_exec(fix(case["prior"]), fix(case["target"]), sp.pop("form", "explicit"), case["delete"], "copy", **sp)[0]
        return [(f"{s_}/{case['tag']}", d_) for s_, d_ in v]
    if case.get("missing_dir") and "/" in case.get("sig", "") and any(
            seg in DIR_DAMAGE or seg.startswith("retry-after-") for seg in case["sig"].split("/")):
        segs = case["sig"].split("/")
        hd = "collect" if segs[-1] == "collecting-handler" else "default"
        if hd == "collect":
            segs = segs[:-1]
        retry = segs[-1].startswith("retry-after-")
        dmg = segs[-1][len("retry-after-"):] if retry else segs[-1]
        v = one_exec(fix(case["prior"]), fix(case["target"]), "lazy", case["delete"], "copy",
                     missing_dir=case["missing_dir"], handler=hd, dir_damage=dmg, retry=retry)[0]
        suffix = "/" + "/".join(case["sig"].split("/")[-(2 if hd == "collect" else 1):])
        return [(s_ + suffix, d_) for s_, d_ in v]
    if case.get("missing_dir"):
        a = (fix(case["prior"]), fix(case["target"]), "lazy", case["delete"], "copy")
        v1, i1 = one_exec(*a, missing_dir=case["missing_dir"])
        v2, i2 = one_exec(*a, missing_dir=case["missing_dir"], handler="collect")
        out = list(v1) + [(s_ + "/collecting-handler", d_) for s_, d_ in v2]
        if i1.get("snap") is not None and i2.get("snap") is not None and i1["snap"] != i2["snap"]:
            out.append(("unloadable-directory-outcome-depends-on-the-load-error-handler", ""))
        return out
    v = one_exec(fix(case["prior"]), fix(case["target"]), case["form"], case["delete"], case["link"],
                 case.get("missing", []), case.get("missing_dir"), case.get("hashless", False))[0]
    if case.get("missing") and case["link"] != "copy":
        return [(f"{s_}/{case['link']}", d_) for s_, d_ in v]
    if case["form"] == "files":
        return [(f"{s_}/files-only-target", d_) for s_, d_ in v]
    return v


def run(ctx):
    priors = gen_trees(ctx.tier, "prior")
    targets = gen_trees(ctx.tier, "target")
    ctx.rule = (
        f"E2 depth 1-2: every pair of {len(priors)} prior workspaces x {len(targets)} targets over paths "
        "{a, a/z, d, d/x, d/s, d/s/y} (file<->directory kind changes at depth 1 and 2, two contents, exec bit) x "
        "target form {explicit entries, lazily loaded directory objects, file entries only (implicit parents; delete on, copy)} x delete on/off x link type; real "
        "build+md5+compare+apply, workspace walk, second compare; plus targets with an unavailable source object and lazy targets whose directory object is not in storage (workspace with / without that directory; default raising and application-installed collecting load-error handler on the index, same outcome demanded; also directory objects that are present but damaged - an item without its path, not JSON, not a list - or whose storage raises a non-OSError, and the retry of the same calls on the same index object once the object is back), a file the workspace index does not know about in one of several directories that are to go; "
        "non-trivial = non-empty, different prior and target"
    )
    ctx.bound = {"priors": len(priors), "targets": len(targets),
                 "links": ["copy"] + (["hardlink", "symlink"] if ctx.tier == "thorough" else ["(hardlink, symlink on every 5th prior)"])}
    ctx.assumptions = [
        "the old side of the *second* compare carries hashes (build + md5, as dvc does); the first compare is run "
        "both with a hashed and with a hash-less workspace index",
        "second compare: the four create/delete action lists must be empty; a non-empty chmod list is only counted "
        "(the property demands that executable entries become executable, not that the exec bit is ever cleared)",
        "without delete only files that are neither target paths nor in the way of a target path must survive",
    ]
    ctx.require("kind_changes", "nested_kind_changes", "exec_targets", "unavailable_runs", "unloadable_dir_runs", "special_shape_runs", "files_only_targets",
                "damaged_dir_object_runs", "retries_after_unloadable_dir", "unknown_file_runs")
    cs = []
    for i in range(len(priors)):
        links = ["copy"]
        if ctx.tier == "thorough" or i % 5 == 0:
            links = ["copy", "hardlink", "symlink"]
        cs.append({"tier": ctx.tier, "i": i, "links": links})
    ctx.run_cases("run_case", cs, chunksize=1, det=2)
