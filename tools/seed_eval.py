#!/usr/bin/env python3
"""Validate a seeded change and record which checks catch it.

usage: tools/seed_eval.py <name> <patch.diff> <demo.py> <meta.json> [--checks C04,C11] [--tier quick]

Confirms on a scratch copy of /repo (never /repo itself):
  1. the patch applies, 2. the repository's own suite still passes with it,
  3. the demonstration fails with it and passes without it,
then runs the given checks (default: the property named in meta.json) against the
patched copy and stores everything under /verif/seeded/<name>/.
"""

import json
import os
import shutil
import subprocess
import sys
import tempfile

PY = "/venv/bin/python"
VERIF = os.path.dirname(os.path.dirname(os.path.abspath(__file__)))


def main():
    args = sys.argv[1:]
    name, patch, demo, meta = args[:4]
    rest = args[4:]
    tier = "quick"
    checks = None
    if "--checks" in rest:
        checks = rest[rest.index("--checks") + 1].split(",")
    if "--tier" in rest:
        tier = rest[rest.index("--tier") + 1]
    m = json.load(open(meta))
    checks = checks or [m["property"]]
    base = "/dev/shm" if os.path.isdir("/dev/shm") else tempfile.gettempdir()
    d = tempfile.mkdtemp(prefix="seed.", dir=base)
    rec = {"name": name, "property": m.get("property"), "summary": m.get("summary"), "needs": m.get("needs"),
           "files": m.get("files"), "confirmed": {}, "checks": {}}
    try:
        subprocess.check_call(["rsync", "-a", "--exclude", ".git", "--exclude", "__pycache__", "/repo/", d + "/repo/"])
        r = subprocess.run(["patch", "-p1", "-s", "-d", d + "/repo", "-i", os.path.abspath(patch)],
                           capture_output=True, text=True)
        rec["confirmed"]["patch_applies"] = r.returncode == 0
        if r.returncode != 0:
            print("PATCH-FAILED", r.stdout[-500:], r.stderr[-500:])
            return finish(rec, name, patch, demo, save=False)
        env = dict(os.environ, PYTHONDONTWRITEBYTECODE="1")
        e2 = dict(env, PYTHONPATH=d + "/repo/src")
        r = subprocess.run([PY, "-m", "pytest", "-q", "-p", "no:cacheprovider", "--timeout=900",
                            "--continue-on-collection-errors"], cwd=d + "/repo", env=e2, capture_output=True, text=True)
        tail = (r.stdout.strip().splitlines() or [""])[-1]
        rec["confirmed"]["suite_with_patch"] = tail
        rec["confirmed"]["suite_passes_with_patch"] = r.returncode == 0 and "164 passed" in tail
        r1 = subprocess.run([PY, os.path.abspath(demo)], env=e2, capture_output=True, text=True, cwd=d, timeout=600)
        e3 = dict(env, PYTHONPATH="/repo/src")
        r0 = subprocess.run([PY, os.path.abspath(demo)], env=e3, capture_output=True, text=True, cwd=d, timeout=600)
        rec["confirmed"]["demo_rc_with_patch"] = r1.returncode
        rec["confirmed"]["demo_rc_without_patch"] = r0.returncode
        rec["confirmed"]["demo_output_with_patch"] = (r1.stdout + r1.stderr)[-400:]
        ok = rec["confirmed"]["suite_passes_with_patch"] and r1.returncode != 0 and r0.returncode == 0
        rec["confirmed"]["all"] = ok
        print(f"{name}: applies=True suite={tail!r} demo_with={r1.returncode} demo_without={r0.returncode} -> {'CONFIRMED' if ok else 'REJECTED'}")
        env2 = dict(env, DVC_DATA_SRC=d + "/repo/src", MC_EVIDENCE_DIR=d + "/evidence", MC_REPLAY_DIR=d + "/replays")
        for pid in checks:
            r = subprocess.run([PY, "-m", "mc", "check", pid, "--tier", tier], cwd=VERIF, env=env2,
                               capture_output=True, text=True)
            out = r.stdout.strip().splitlines()
            sigs = [l.strip()[len("signature="):] for l in out if l.strip().startswith("signature=")]
            rec["checks"][pid] = {"rc": r.returncode, "tier": tier, "signatures": sigs[:12],
                                  "summary": out[-1] if out else ""}
            print(f"   {pid} rc={r.returncode} sigs={[s.split(' ')[0] for s in sigs[:4]]}")
            if r.returncode == 2:
                print("\n".join(out[-6:]))
        return finish(rec, name, patch, demo, save=ok)
    finally:
        shutil.rmtree(d, ignore_errors=True)


def finish(rec, name, patch, demo, save):
    if save:
        out = os.path.join(VERIF, "seeded", name)
        os.makedirs(out, exist_ok=True)
        shutil.copy(patch, os.path.join(out, "patch.diff"))
        shutil.copy(demo, os.path.join(out, "demo.py"))
        rec["what_was_run"] = (
            "tools/seed_eval.py: patch applied to a scratch copy of /repo; repo suite run with PYTHONPATH on the copy; "
            "demo run against the copy (must fail) and against /repo (must pass); checks run with DVC_DATA_SRC on the copy")
        with open(os.path.join(out, "meta.json"), "w") as f:
            json.dump(rec, f, indent=1)
    return 0


if __name__ == "__main__":
    sys.exit(main())
