#!/usr/bin/env python3
"""Run a Python script against a patched scratch copy of /repo/src (DVC_DATA_SRC), then remove the copy.

usage: tools/patched.py <patch.diff> <script.py> [args...]
"""
import os
import shutil
import subprocess
import sys
import tempfile

patch, script = os.path.abspath(sys.argv[1]), sys.argv[2]
d = tempfile.mkdtemp(prefix="pat.", dir="/dev/shm")
try:
    subprocess.check_call(["rsync", "-a", "--exclude", ".git", "--exclude", "__pycache__", "/repo/src", d + "/"])
    subprocess.check_call(["patch", "-p1", "-s", "-d", d, "-i", patch])
    env = dict(os.environ, DVC_DATA_SRC=d + "/src", PYTHONDONTWRITEBYTECODE="1")
    sys.exit(subprocess.call(["/venv/bin/python", script] + sys.argv[3:], env=env))
finally:
    shutil.rmtree(d, ignore_errors=True)
