"""C08 index diff is exact: every key once, correctly classified, renames paired.

E1: all ordered pairs of well-formed indexes over a small key universe (plus
None on either side) x all valid option combinations; the real
dvc_data.index.diff.diff vs a flat dictionary-based reference.
"""

CASE_TIMEOUT = 600  # seconds per pool task (the unchanged tree needs a small fraction of this)

import itertools
from collections import Counter

from .. import ref
from ..world import digest_obj

H1, H2 = ref.md5(b"one"), ref.md5(b"two")

# file variants: (hash-name, hash, meta) ; meta = (size, isexec) or None
FILE_VARIANTS = {
    "h1": ("md5", H1, (1, False)),
    "h2": ("md5", H2, (1, False)),
    "nohash": (None, None, (1, False)),
    "nometa": ("md5", H1, None),
    "exec": ("md5", H1, (1, True)),
    "legacy": ("md5-dos2unix", H1, (1, False)),
    "ino": ("md5", H1, (1, False, 77)),   # h1 replaced atomically: only the inode differs
    "h1up": ("md5", H1.upper(), (1, False)),   # another object: the same hex digits in upper case
    # a file whose digest is the raw digest of the directory {x: h1} (its content is that listing's JSON)
    "rawdir": ("md5", ref.tree_oid({"x": H1})[: -len(".dir")], (1, False)),
}


def universe(tier):
    if tier == "thorough":
        return {
            "top": ["h1", "h2", "nohash", "nometa", "exec", "legacy", "ino", "rawdir", "h1up"],
            "child": ["h1", "h2", "nohash", "nometa", "exec", "ino"],
            "b": ["h1", "h2", "nohash", "exec", "h1up"],
            "nest": True,
        }
    return {
        "top": ["h1", "h2", "nohash", "exec", "ino", "rawdir"],
        "child": ["h1", "h2", "nometa", "ino"],
        "b": ["h1", "h2", "h1up"],
        "nest": False,
    }


def dir_hash(children):
    """Content-derived directory hash: function of (relative key, child hash)."""
    lst = {"/".join(k): v for k, v in sorted(children.items())}
    return ref.tree_oid(lst)


def gen_specs(tier):
    """Yield index specs: {key: ("file", variant) | ("dir", "explicit"|"hashed")}.

    Implicit directories have no entry (only their children appear).
    """
    u = universe(tier)
    A, AX, AY, B = ("a",), ("a", "x"), ("a", "y"), ("b",)
    AXZ = ("a", "x", "z")

    def a_forms():
        yield {}
        for v in u["top"]:
            yield {A: ("file", v)}
        # a is a directory
        ax_forms = [None] + [("file", v) for v in u["child"]]
        if u["nest"]:
            # a/x itself a directory holding a/x/z
            for kind in ("implicit", "explicit", "hashed"):
                for zv in ("h1", "h2"):
                    ax_forms.append(("dirz", kind, zv))
        for ax in ax_forms:
            for ay in [None] + [("file", v) for v in u["child"]]:
                sub = {}
                if ax is not None:
                    if ax[0] == "file":
                        sub[AX] = ax
                    else:
                        _, kind, zv = ax
                        sub[AXZ] = ("file", zv)
                        if kind != "implicit":
                            sub[AX] = ("dir", kind)
                if ay is not None:
                    sub[AY] = ay
                for kind in ("implicit", "explicit", "hashed", "emptyhash"):
                    if kind == "implicit" and not sub:
                        continue
                    if kind == "hashed" and any(
                        v[0] == "file" and FILE_VARIANTS[v[1]][1] is None
                        for v in sub.values()
                    ):
                        continue  # a hashed directory lists hashed files only
                    s = dict(sub)
                    if kind != "implicit":
                        s[A] = ("dir", kind)
                    yield s

    for a in a_forms():
        for b in [None] + [("file", v) for v in u["b"]]:
            s = dict(a)
            if b is not None:
                s[B] = b
            yield s


def resolve(spec):
    """spec -> flat {key: (hashinfo tuple|None, meta tuple|None)} with dir hashes."""
    flat = {}
    for k, v in spec.items():
        if v[0] == "file":
            name, h, meta = FILE_VARIANTS[v[1]]
            flat[k] = ((name, h) if h else None, ("f",) + meta if meta else None)
    # directories bottom-up
    for k in sorted((k for k, v in spec.items() if v[0] == "dir"), key=len, reverse=True):
        kind = spec[k][1]
        if kind == "explicit":
            flat[k] = (None, ("d",))
        elif kind == "emptyhash":
            flat[k] = ((), ("d",))   # an explicit directory whose HashInfo object is present but empty
        else:
            children = {
                kk[len(k):]: flat[kk][0][1]
                for kk in flat
                if len(kk) > len(k) and kk[: len(k)] == k and flat[kk][1] != ("d",)
                and flat[kk][0] and not flat[kk][0][1].endswith(".dir")
            }
            flat[k] = (("md5", dir_hash(children)), ("d",))
    return flat


def build_index(flat):
    from dvc_data.hashfile.hash_info import HashInfo
    from dvc_data.hashfile.meta import Meta
    from dvc_data.index import DataIndex, DataIndexEntry

    idx = DataIndex()
    for k, (h, m) in flat.items():
        meta = None
        if m is not None:
            meta = Meta(isdir=True) if m[0] == "d" else Meta(size=m[1], isexec=m[2],
                                                              inode=m[3] if len(m) > 3 else None)
        hi = HashInfo(h[0], h[1]) if h else (HashInfo("md5", None) if h == () else None)
        idx[k] = DataIndexEntry(key=k, meta=meta, hash_info=hi, loaded=True if m == ("d",) else None)
    return idx


def lazy_ok(flat):
    """Hashed directories whose descendants are files only (their listing object then equals the entries)."""
    if not flat:
        return False
    hashed = [k for k, (h, m) in flat.items() if m == ("d",) and h]
    if not hashed:
        return False
    for d in hashed:
        for k, (h, m) in flat.items():
            if len(k) > len(d) and k[: len(d)] == d and (m == ("d",) or not h or h[0] != "md5"
                                                           or len(k) != len(d) + 1):
                # (a file deeper than one level has an implicit intermediate directory in the flat index,
                # while loading the directory object creates an entry for it: not the same index)
                return False
    return True


_LAZY = {}


def lazy_view(flat):
    """The same index with every hashed directory as ONE unloaded entry backed by an object storage, seen
    through an all-pass view: diff has to load it on the way."""
    import os

    from dvc_data.hashfile.hash_info import HashInfo
    from dvc_data.hashfile.meta import Meta
    from dvc_data.index import DataIndex, DataIndexEntry, ObjectStorage
    from dvc_data.index import view as iview

    from ..lab import make_odb, put_raw
    from ..world import session_root

    if "odb" not in _LAZY:
        _LAZY["odb"] = make_odb("base", os.path.join(session_root(), f"c08-store-{os.getpid()}"))
    odb = _LAZY["odb"]
    hashed = [k for k, (h, m) in flat.items() if m == ("d",) and h]
    idx = DataIndex()
    for k, (h, m) in flat.items():
        if any(len(k) > len(d) and k[: len(d)] == d for d in hashed):
            continue
        if k in hashed:
            children = {"/".join(kk[len(k):]): flat[kk][0][1] for kk in flat if len(kk) > len(k) and kk[: len(k)] == k}
            put_raw(odb, h[1], ref.tree_bytes(children))
            idx[k] = DataIndexEntry(key=k, meta=Meta(isdir=True), hash_info=HashInfo("md5", h[1]))
            continue
        meta = None
        if m is not None:
            meta = Meta(isdir=True) if m[0] == "d" else Meta(size=m[1], isexec=m[2], inode=m[3] if len(m) > 3 else None)
        hi = HashInfo(h[0], h[1]) if h else (HashInfo("md5", None) if h == () else None)
        idx[k] = DataIndexEntry(key=k, meta=meta, hash_info=hi, loaded=True if m == ("d",) else None)
    idx.storage_map.add_cache(ObjectStorage((), odb))
    return iview(idx, lambda _k: True)


def _entry(k, h, m):
    from dvc_data.hashfile.hash_info import HashInfo
    from dvc_data.hashfile.meta import Meta
    from dvc_data.index import DataIndexEntry

    meta = None
    if m is not None:
        meta = Meta(isdir=True) if m[0] == "d" else Meta(size=m[1], isexec=m[2], inode=m[3] if len(m) > 3 else None)
    hi = HashInfo(h[0], h[1]) if h else (HashInfo("md5", None) if h == () else None)
    return DataIndexEntry(key=k, meta=meta, hash_info=hi, loaded=True if m == ("d",) else None)


_SQ = {"n": 0}


def sqlite_index(flat, via=None, reopen=False):
    """The same index kept in an SQLite file. `via`: the file first holds that other index (committed) and is
    then turned into `flat` in the same session by deleting and overwriting entries; `reopen`: committed,
    closed and opened again before use. Returns (index, path)."""
    import os

    from dvc_data.index import DataIndex

    from ..world import session_root

    _SQ["n"] += 1
    path = os.path.join(session_root(), f"c08-{os.getpid()}-{_SQ['n']}.sqlite")
    idx = DataIndex.open(path)
    if via:
        for k, (h, m) in via.items():
            idx[k] = _entry(k, h, m)
        idx.commit()
        # children before parents, so that no entry is ever below a missing node
        for k in sorted(via, key=len, reverse=True):
            if k not in flat:
                del idx[k]
    for k, (h, m) in flat.items():
        if not via or via.get(k) != (h, m):
            idx[k] = _entry(k, h, m)
    idx.commit()
    if reopen:
        idx.close()
        idx = DataIndex.open(path)
    return idx, path


def check_sqlite(fo, fn, opt):
    """Both sides SQLite-backed indexes of this process: the old one was turned from the new one's content into
    its own within one session, the new one was committed, closed and reopened."""
    import os

    # (the inode is not part of the serialised metadata: both sides are compared without it)
    def noino(flat):
        return None if flat is None else {k: (h, m[:3] if m and m[0] == "f" else m) for k, (h, m) in flat.items()}

    fo, fn = noino(fo), noino(fn)
    io = in_ = None
    paths = []
    try:
        if fo is not None:
            io, p_ = sqlite_index(fo, via=fn)
            paths.append(p_)
        if fn is not None:
            in_, p_ = sqlite_index(fn, reopen=True)
            paths.append(p_)
        return check_pair(fo, fn, io, in_, opt)[0]
    finally:
        for ix in (io, in_):
            if ix is not None:
                ix.close()
        for p_ in paths:
            for suffix in ("", "-wal", "-shm", "-journal"):
                if os.path.exists(p_ + suffix):
                    os.unlink(p_ + suffix)


def check_lazy_views(fo, fn, opt):
    io = lazy_view(fo) if fo is not None else None
    in_ = lazy_view(fn) if fn is not None else None
    return check_pair(fo, fn, io, in_, opt)[0]


# ---- reference --------------------------------------------------------------

OPTS = []
for mode in ("default", "hash_only", "meta_only"):
    for wu in (False, True):
        for sh in (False, True):
            for wr in (False, True):
                if wr and mode == "meta_only":
                    continue
                OPTS.append((mode, wu, sh, wr, None))
# restricted roots (disjoint ones: overlapping roots are walked once each, which the property does not define)
for mode in ("default", "hash_only"):
    for wu in (False, True):
        for roots in ((("a",),), (("a",), ("b",)), (("b",), ("a", "x"))):
            OPTS.append((mode, wu, False, False, roots))


def eff_meta(ent):
    h, m = ent
    if m is None and h:
        return ("f", None, False)  # the index fills in an empty Meta() for hashed entries
    return m


def visible(flat, shallow):
    if flat is None:
        return {}
    if not shallow:
        return flat
    out = {}
    for k, v in flat.items():
        hidden = any(
            flat.get(k[:i]) is not None and flat[k[:i]][0]
            for i in range(1, len(k))
        )
        if not hidden:
            out[k] = v
    return out


def classify(o, n, mode):
    if mode == "hash_only":
        oh, nh = ((o[0] or None) if o else None), ((n[0] or None) if n else None)
        if not oh and nh:
            return "add"
        if oh and not nh:
            return "delete"
        return "unchanged" if oh == nh else "modify"
    if mode == "meta_only":
        om, nm = (eff_meta(o) if o else None), (eff_meta(n) if n else None)
        if om is None and nm is not None:
            return "add"
        if om is not None and nm is None:
            return "delete"
        return "unchanged" if om == nm else "modify"
    if o is None:
        return "add"
    if n is None:
        return "delete"
    same = (o[0] or None) == (n[0] or None) and eff_meta(o) == eff_meta(n)
    return "unchanged" if same else "modify"


def ref_diff(fo, fn, mode, wu, sh):
    vo, vn = visible(fo, sh), visible(fn, sh)
    out = Counter()
    for k in set(vo) | set(vn):
        o, n = vo.get(k), vn.get(k)
        typ = classify(o, n, mode)
        if typ == "unchanged" and not wu:
            continue
        out[(typ, k if o is not None else None, k if n is not None else None)] += 1
    return out


def hash_of(flat, k):
    return flat[k][0] if flat and k in flat else None


def check_pair(fo, fn, io, in_, opt):
    from dvc_data.index.diff import diff

    mode, wu, sh, wr, roots = (tuple(opt) + (None,))[:5]
    viol = []
    kw = {"roots": [tuple(r) for r in roots]} if roots else {}
    try:
        got = list(
            diff(io, in_, with_renames=wr, with_unchanged=wu, hash_only=mode == "hash_only",
                 meta_only=mode == "meta_only", shallow=sh, **kw)
        )
    except Exception as e:  # noqa: BLE001
        return [(f"diff-raises-{type(e).__name__}/{mode}", repr(e))], "exc"
    flatgot = Counter()
    renames = []
    for c in got:
        ok = c.old.key if c.old is not None else None
        nk = c.new.key if c.new is not None else None
        if c.typ == "rename":
            renames.append((ok, nk, c.old.hash_info, c.new.hash_info))
        else:
            flatgot[(c.typ, ok, nk)] += 1
    optname = f"{mode}{'+unchanged' if wu else ''}{'+shallow' if sh else ''}{'+roots' if roots else ''}"
    if sh:
        return check_shallow(fo, fn, mode, wu, flatgot, renames, optname, viol), len(got)
    base = ref_diff(fo, fn, mode, wu, False)
    if roots:
        def in_roots(k):
            return any(tuple(k[: len(r)]) == tuple(r) for r in roots)

        base = Counter({c: n for c, n in base.items() if in_roots(c[1] if c[1] is not None else c[2])})
    if mode == "hash_only" and not wu and fo is not None and fn is not None:
        # Directory entries beneath a directory whose content-derived hash is equal on
        # both sides are not changes (the files are the same): exempt on both sides.
        same = [k for k in fo if k in fn and fo[k][0] and fo[k][0] == fn[k][0]
                and fo[k][0][1].endswith(".dir")]

        def under(k):
            return k is not None and any(len(k) > len(d) and k[: len(d)] == d for d in same)

        base = Counter({c: n for c, n in base.items() if not (under(c[1]) or under(c[2]))})
        flatgot = Counter({c: n for c, n in flatgot.items() if not (under(c[1]) or under(c[2]))})
        renames = [r for r in renames if not (under(r[0]) or under(r[1]))]
    if not (wr and fo is not None and fn is not None):
        if renames:
            viol.append((f"rename-without-request/{optname}", repr(renames)))
        if flatgot != base:
            missing = sorted((base - flatgot).elements(), key=repr)
            extra = sorted((flatgot - base).elements(), key=repr)
            dup = [k for k, c in flatgot.items() if c > 1]
            kind = "duplicate-key" if dup else ("missing-change" if missing else "spurious-change")
            if missing and extra:
                kind = "misclassified"
            viol.append((f"{kind}/{optname}", f"missing={missing} extra={extra} dup={dup}"))
        return viol, len(got)
    # with renames: account for every base add/delete exactly once
    adds = Counter()
    dels = Counter()
    other = Counter()
    for (typ, ok, nk), c in base.items():
        (adds if typ == "add" else dels if typ == "delete" else other)[(typ, ok, nk)] += c
    got_other = Counter({k: c for k, c in flatgot.items() if k[0] not in ("add", "delete")})
    got_adds = Counter({k: c for k, c in flatgot.items() if k[0] == "add"})
    got_dels = Counter({k: c for k, c in flatgot.items() if k[0] == "delete"})
    for ok, nk, oh, nh in renames:
        if not oh or oh != nh:
            viol.append((f"rename-pairs-different-hash/{optname}", f"{ok}->{nk} {oh} {nh}"))
        # a rename consumes one base delete and one base add
        dk = next((k for k in dels if k[1] == ok), None)
        ak = next((k for k in adds if k[2] == nk), None)
        if dk is None or ak is None:
            viol.append((f"rename-of-nonexistent-change/{optname}", f"{ok}->{nk}"))
            continue
        got_dels[dk] += 1
        got_adds[ak] += 1
    if got_adds != adds or got_dels != dels or got_other != other:
        viol.append(
            (
                f"rename-mode-lost-or-duplicated-key/{optname}",
                f"adds {sorted((adds - got_adds).elements(), key=repr)} / "
                f"{sorted((got_adds - adds).elements(), key=repr)} dels "
                f"{sorted((dels - got_dels).elements(), key=repr)} / "
                f"{sorted((got_dels - dels).elements(), key=repr)}",
            )
        )
    # no matching pair left unpaired: per hash, #renames == min(#del, #add)
    per_del, per_add, per_ren = Counter(), Counter(), Counter()
    for (_t, ok, _n), c in dels.items():
        h = classify_hash(fo, ok)
        if h:
            per_del[h] += c
    for (_t, _o, nk), c in adds.items():
        h = classify_hash(fn, nk)
        if h:
            per_add[h] += c
    for _ok, _nk, oh, _nh in renames:
        per_ren[(oh.name, oh.value)] += 1
    for h in set(per_del) | set(per_add) | set(per_ren):
        if per_ren[h] != min(per_del[h], per_add[h]):
            viol.append(
                (
                    f"rename-count-not-min/{optname}",
                    f"hash {h}: {per_ren[h]} renames, {per_del[h]} deleted, {per_add[h]} added",
                )
            )
    return viol, (len(got), len(renames))


def check_shallow(fo, fn, mode, wu, flatgot, renames, optname, viol):
    """shallow=True: children of hashed directory entries may be left unexplored.

    The property does not define what is skipped, so only this is demanded:
    keys with no hashed ancestor on either side are reported exactly as without
    shallow; any other reported change is classified correctly for what the
    diff can see (both sides, or one side hidden); no key is reported twice.
    """
    fo_, fn_ = fo or {}, fn or {}

    def shaded(k):
        return any(
            (f.get(k[:i]) is not None and f[k[:i]][0])
            for f in (fo_, fn_) for i in range(1, len(k))
        )

    base = ref_diff(fo, fn, mode, wu, False)
    base_u = Counter({c: n for c, n in base.items() if not shaded(c[1] or c[2])})
    got_u = Counter()
    seen = Counter()
    items = list(flatgot.items())
    for ok, nk, oh, nh in renames:
        if not oh or oh != nh:
            viol.append((f"rename-pairs-different-hash/{optname}", f"{ok}->{nk}"))
        items.append((("delete", ok, None), 1))
        items.append((("add", None, nk), 1))
    for (typ, ok, nk), n in items:
        k = ok if ok is not None else nk
        seen[k] += n
        if not shaded(k):
            got_u[(typ, ok, nk)] += n
            continue
        o, nn = fo_.get(k), fn_.get(k)
        allowed = {classify(o, nn, mode), classify(o, None, mode), classify(None, nn, mode)}
        if typ not in allowed:
            viol.append((f"misclassified-under-hashed-dir/{optname}", f"{k}: {typ} not in {allowed}"))
    dup = [k for k, n in seen.items() if n > 1]
    if dup:
        viol.append((f"duplicate-key/{optname}", f"{dup}"))
    if not renames and got_u != base_u:
        missing = sorted((base_u - got_u).elements(), key=repr)
        extra = sorted((got_u - base_u).elements(), key=repr)
        kind = "misclassified" if missing and extra else ("missing-change" if missing else "spurious-change")
        viol.append((f"{kind}/{optname}", f"missing={missing} extra={extra}"))
    elif renames:
        # every unshaded base change must be accounted for (as itself or inside a rename)
        r_old = {r[0] for r in renames}
        r_new = {r[1] for r in renames}
        lost = [c for c in sorted((base_u - got_u).elements(), key=repr)
                if not (c[0] == "add" and c[2] in r_new) and not (c[0] == "delete" and c[1] in r_old)]
        if lost:
            viol.append((f"rename-mode-lost-or-duplicated-key/{optname}", f"lost={lost}"))
    return viol


def classify_hash(flat, k):
    v = hash_of(flat, k)
    return tuple(v) if v else None


_CACHE = {}


def all_indexes(tier):
    if tier not in _CACHE:
        seen, flats = set(), []
        for s in gen_specs(tier):
            f = resolve(s)
            d = repr(sorted(f.items()))
            if d not in seen:
                seen.add(d)
                flats.append(f)
        _CACHE[tier] = flats
    return _CACHE[tier]


def run_case(case):
    flats = all_indexes(case["tier"])
    i = case["i"]
    fo = flats[i] if i >= 0 else None
    res = {"n": 0, "trans": 0, "states": [], "outcomes": set(), "nontrivial": set(), "viol": [],
           "vac": {"renames_found": 0, "shortcut_candidates": 0, "kind_change_pairs": 0}}
    sigs = set()
    for j in range(-1, len(flats)):
        fn = flats[j] if j >= 0 else None
        if fo is None and fn is None:
            continue
        pair_d = digest_obj((i, j))
        res["states"].append(pair_d)
        if fo and fn and fo != fn and len(fo) >= 2 and len(fn) >= 2:
            res["nontrivial"].add(pair_d)
        if fo and fn and any(
            k in fn and (fo[k][1] == ("d",)) != (fn[k][1] == ("d",)) for k in fo
        ):
            res["vac"]["kind_change_pairs"] += 1
        if fo and fn and any(
            k in fn and fo[k][0] and fo[k][0] == fn[k][0] and fo[k][0][1].endswith(".dir")
            for k in fo
        ):
            res["vac"]["shortcut_candidates"] += 1
        if (fo is None or lazy_ok(fo)) and (fn is None or lazy_ok(fn)):
            for opt in (("hash_only", False, False, False, None), ("hash_only", True, False, False, None)):
                viol = check_lazy_views(fo, fn, opt)
                res["n"] += 1
                res["trans"] += 1
                res["vac"]["lazy_view_diffs"] = res["vac"].get("lazy_view_diffs", 0) + 1
                for sig, detail in viol:
                    sig = sig + "/lazy-views"
                    if sig in sigs:
                        continue
                    sigs.add(sig)
                    res["viol"].append((sig, detail, {"tier": case["tier"], "i": i, "j": j, "opt": list(opt[:4]) + [None],
                                                      "lazy": True}))
        if (i + 3 * j) % 23 == 0:
            for opt in (("default", True, False, False, None), ("hash_only", False, False, True, None)):
                viol = check_sqlite(fo, fn, opt)
                res["n"] += 1
                res["trans"] += 1
                res["vac"]["sqlite_backed_diffs"] = res["vac"].get("sqlite_backed_diffs", 0) + 1
                for sig, detail in viol:
                    sig = sig + "/sqlite-backed"
                    if sig in sigs:
                        continue
                    sigs.add(sig)
                    res["viol"].append((sig, detail, {"tier": case["tier"], "i": i, "j": j, "opt": list(opt[:4]) + [None],
                                                      "sqlite": True}))
        for opt in OPTS:
            io = build_index(fo) if fo is not None else None
            in_ = build_index(fn) if fn is not None else None
            viol, outcome = check_pair(fo, fn, io, in_, opt)
            res["n"] += 1
            res["trans"] += 1
            res["outcomes"].add(repr((opt, outcome)))
            if isinstance(outcome, tuple) and outcome[1]:
                res["vac"]["renames_found"] += 1
            for sig, detail in viol:
                if sig in sigs:
                    res["vac"]["viol:" + sig] = res["vac"].get("viol:" + sig, 0) + 1
                    continue
                sigs.add(sig)
                res["viol"].append((sig, detail, {"tier": case["tier"], "i": i, "j": j, "opt": [list(x) if isinstance(x, tuple) else x for x in opt]}))
    res["outcomes"] = sorted(res["outcomes"])[:200]
    res["nontrivial"] = sorted(res["nontrivial"])
    if i == 7:
        res["sample"] = {"old_index": {"/".join(k): v for k, v in (fo or {}).items()},
                         "against": "every index incl. None", "options": len(OPTS)}
    return res


def replay(case):
    flats = all_indexes(case["tier"])
    fo = flats[case["i"]] if case["i"] >= 0 else None
    fn = flats[case["j"]] if case["j"] >= 0 else None
    io = build_index(fo) if fo is not None else None
    in_ = build_index(fn) if fn is not None else None
    print("old:", fo)
    print("new:", fn)
    opt = tuple(case["opt"])
    if len(opt) > 4 and opt[4]:
        opt = opt[:4] + (tuple(tuple(r) for r in opt[4]),)
    if case.get("lazy"):
        return [(s_ + "/lazy-views", d) for s_, d in check_lazy_views(fo, fn, opt)]
    if case.get("sqlite"):
        return [(s_ + "/sqlite-backed", d) for s_, d in check_sqlite(fo, fn, opt)]
    return check_pair(fo, fn, io, in_, opt)[0]


def run(ctx):
    flats = all_indexes(ctx.tier)
    ctx.rule = (
        "E1 product: all ordered pairs of well-formed indexes over keys {a, a/x, a/y, b}"
        " (thorough: + a/x/z, more entry variants), None on either side, x 20 option "
        "combinations {default|hash_only|meta_only} x with_unchanged x shallow x with_renames;"
        " every 23rd pair also with both sides SQLite-backed (the old one turned from the new one's content into its own by"
        " deletes and overwrites within one session, the new one committed, closed and reopened);"
        " non-trivial = both indexes have >=2 entries and differ"
    )
    ctx.bound = {"indexes": len(flats), "options": len(OPTS), "universe": universe(ctx.tier)}
    ctx.assumptions = [
        "well-formed: a file has no children; a hashed directory lists hashed files only and "
        "its hash is a function of (relative key, file hash) of its listing",
        "entries with neither hash nor metadata are excluded (their classification cell is "
        "not determined by the property)",
        "shallow=True: what is skipped beneath hashed directory entries is not defined by the "
        "property; keys without a hashed ancestor must be reported exactly, others only "
        "correctly classified for what is visible and never twice",
        "hash_only without with_unchanged: directory entries beneath a directory whose "
        "content-derived hash is equal on both sides are not changes",
    ]
    ctx.require("renames_found", "shortcut_candidates", "kind_change_pairs", "lazy_view_diffs", "sqlite_backed_diffs")
    cs = [{"tier": ctx.tier, "i": i} for i in range(-1, len(flats))]
    ctx.run_cases("run_case", cs, chunksize=1, det=3)
    ctx.extra["distinct_indexes"] = len(flats)
