"""C05 checkout never destroys user data that is not recoverable from the cache.

E2: base tree checked out, then every per-path user mutation vector x target x
store class x link type x relink x prompt x state with force off: byte strings
lost from the workspace must be intact in the cache, uncached files must be
untouched, PromptError names an untouched path.  Link clean-up: BFS over
record / modify / replace / remove / clean-up histories on two tracked paths.
"""

import itertools
import os

from .. import ref
from ..colab import (
    CONTENTS,
    LFS,
    MD5,
    TREES,
    UNCACHED,
    fill_cache,
    load_obj,
    lstat_map,
    make_odb,
)
from ..lab import RmFaultFS
from ..world import World, digest_obj, stamp, store_snapshot, walk_files, write_file

PMUTS = ["same", "deleted", "cached", "uncached", "retyped"]
TARGETS = ["A", "B", "S", "N", "file:x", "from-file", "file-file"]


def apply_mut(ws, rel, mut, base_content):
    p = os.path.join(ws, *rel.split("/"))
    if mut == "deleted":
        os.unlink(p)
    elif mut == "cached":
        os.unlink(p)
        write_file(p, CONTENTS["z"])  # z is in the cache (tree N lists it)
    elif mut == "uncached":
        os.unlink(p)
        write_file(p, UNCACHED + rel.encode())
    elif mut == "retyped":
        os.unlink(p)
        write_file(p, base_content)
    elif mut == "swapped":
        # replaced (new inode) by different, uncached bytes of the same size with the mtime preserved
        st = os.stat(p)
        data = bytes((b + 1) % 256 for b in base_content) or b""
        tmp = p + ".swap"
        write_file(tmp, data, stamp_it=False)
        os.utime(tmp, ns=(st.st_atime_ns, st.st_mtime_ns))
        os.replace(tmp, p)


def one_exec(cfg):
    from dvc_data.hashfile.checkout import CheckoutError, PromptError, checkout
    from dvc_data.hashfile.state import State

    viol = []
    info = {"outcome": None}
    with World() as w:
        state = State(root_dir=w.root, tmp_dir=w.p("tmp")) if cfg["state"] else None
        try:
            kw = {"state": state} if state is not None else {}
            # rmfault: one file system object serves the cache and the workspace; removing the corrupt cache
            # object fails on the first attempt (an immutable file, a shared cache owned by someone else)
            fs_ = RmFaultFS() if cfg.get("rmfault") else LFS
            if cfg.get("rmfault"):
                kw["fs"] = fs_
            odb = make_odb(cfg["kind"], w.p("cache"), type=[cfg["link"]], **kw)
            fill_cache(odb, extra=["z"])
            ws = w.p("ws")
            if cfg["target"] in ("from-file", "file-file"):
                # prior: a single file at the path; target: a tree (file -> directory) or another single file
                checkout(ws, LFS, load_obj(odb, "x"), odb, force=True, state=state)
                if cfg["vec"][0] == "uncached":
                    os.unlink(ws)
                    write_file(ws, UNCACHED)
                elif cfg["vec"][0] == "cached":
                    os.unlink(ws)
                    write_file(ws, CONTENTS["z"])
                target = load_obj(odb, "A" if cfg["target"] == "from-file" else "z")
            else:
                checkout(ws, LFS, load_obj(odb, "A"), odb, force=True, state=state)
                for rel, mut in zip(("a", "s/c", "b"), cfg["vec"]):
                    if mut != "same":
                        apply_mut(ws, rel, mut, CONTENTS[TREES["A"][rel]])
                if cfg["untracked"]:
                    write_file(os.path.join(ws, "s", "untracked"), b"untracked-user-file")
                if cfg.get("dangling"):
                    # the user (or a cleaned-up cache) left a dangling symbolic link in the directory
                    os.symlink(w.p("nowhere"), os.path.join(ws, "s", "dangling-link"))
                tname = cfg["target"]
                target = load_obj(odb, "x" if tname == "file:x" else tname)
            loss = cfg.get("cacheloss", "none")
            if loss != "none":
                # the cache loses (or gets a corrupted) object x after it was verified by the first checkout:
                # the workspace copies of x are now the only ones
                px = odb.oid_to_path(MD5["e" if loss == "remove-e" else "x"])
                os.chmod(px, 0o644)
                if loss in ("remove-x", "remove-e"):
                    # (remove-e: the zero-byte object is gone, the workspace's empty file is the only copy)
                    os.unlink(px)
                else:
                    with open(px, "wb") as fh:
                        fh.write(b"bit-rot")
                    stamp(px)
                    if cfg.get("rmfault"):
                        fs_.deny = frozenset([px])
            before = walk_files(ws)
            before_l = lstat_map(ws)
            cache_before = {k: v[0] for k, v in store_snapshot(odb.path).items() if isinstance(k, str)}
            cached_digests = {k for k, v in cache_before.items() if isinstance(v, bytes) and ref.md5(v) == k.split(".")[0]}
            prompts = []
            prompt = None
            if cfg["prompt"] == "declining":
                def prompt(msg):
                    prompts.append(msg)
                    return False
            exc = None
            ws_arg = ws + os.sep if cfg.get("trail") else ws   # the same directory, spelled with a trailing separator
            odb_t = odb
            if cfg.get("ro"):
                # the cache is opened read-only for this checkout
                odb_t = make_odb(cfg["kind"], w.p("cache"), type=[cfg["link"]], read_only=True, **kw)
            if cfg.get("rmfault"):
                # first attempt with the removal failing (whatever it raises), then the same call again
                try:
                    checkout(ws_arg, fs_, target, odb_t, force=False, relink=cfg["relink"], state=state, prompt=prompt)
                    info["first"] = "ok"
                except Exception as e:  # noqa: BLE001
                    info["first"] = type(e).__name__
                info["denied"] = fs_.denied
                fs_.deny = frozenset()
            try:
                checkout(ws_arg, fs_, target, odb_t, force=False, relink=cfg["relink"], state=state, prompt=prompt)
                info["outcome"] = "ok"
            except PromptError as e:
                exc = e
                info["outcome"] = "PromptError"
            except CheckoutError as e:
                exc = e
                info["outcome"] = "CheckoutError"
            except Exception as e:  # noqa: BLE001
                exc = e
                # not a refusal the property names, but no claim is made about which error is
                # raised: only about what happens to the data (checked below)
                info["outcome"] = type(e).__name__
            if cfg.get("cleanup") and state is not None:
                # link clean-up right after the call, nothing listed as in use
                unused = state.get_unused_links([], LFS)
                state.remove_links(unused, LFS)
                info["cleaned"] = list(unused)
            after = walk_files(ws) if os.path.lexists(ws) else {}
            after_l = lstat_map(ws) if os.path.lexists(ws) else {}
            after_bytes = set(v for v in after.values() if isinstance(v, bytes))
            cache_after = {k: v[0] for k, v in store_snapshot(odb.path).items() if isinstance(k, str)}
            # (1) every byte string lost from the workspace is intact in the cache
            for rel, data in before.items():
                if not isinstance(data, bytes) or data in after_bytes:
                    continue
                h = ref.md5(data)
                if cache_after.get(h) != data:
                    viol.append(("unrecoverable-user-data-destroyed",
                                 f"{rel!r} ({data[:24]!r}) is gone from the workspace and not in the cache; "
                                 f"outcome={info['outcome']} cfg={cfg}"))
            # (2) files with uncached content are untouched (same path, same bytes)
            for rel, data in before.items():
                if isinstance(data, bytes) and ref.md5(data) not in cached_digests:
                    if after.get(rel) != data:
                        viol.append(("uncached-file-removed-or-overwritten",
                                     f"{rel!r} outcome={info['outcome']} cfg={cfg}"))
                    elif info["outcome"] == "ok" and cfg["target"] not in ("A", "S", "N", "B"):
                        pass
            # (3) PromptError names a path that is untouched
            if isinstance(exc, PromptError):
                rel = os.path.relpath(exc.path, ws).replace(os.sep, "/")
                rel = "" if rel == "." else rel
                if os.path.isdir(exc.path) and not os.path.islink(exc.path):
                    sub = {k: v for k, v in before.items() if k == rel or k.startswith(rel + "/") or rel == ""}
                    sub2 = {k: v for k, v in after.items() if k == rel or k.startswith(rel + "/") or rel == ""}
                    uncached_lost = [k for k, v in sub.items() if isinstance(v, bytes)
                                     and ref.md5(v) not in cached_digests and sub2.get(k) != v]
                    if uncached_lost:
                        viol.append(("prompt-error-path-was-modified", f"{rel}: {uncached_lost}"))
                elif before_l.get(rel) != after_l.get(rel) or before.get(rel) != after.get(rel):
                    viol.append(("prompt-error-path-was-modified", f"{rel}"))
            if loss == "none" and cache_after != cache_before:
                viol.append(("cache-object-bytes-changed", ""))
        finally:
            if state is not None:
                state.close()
    return viol, info


def run_case(case):
    res = {"n": 0, "trans": 0, "states": [], "outcomes": set(), "nontrivial": set(), "viol": [],
           "vac": {"refusals": 0, "uncached_vectors": 0, "completed": 0, "kind_change_runs": 0}}
    sigs = set()
    base = case["base"]
    npaths = case["npaths"]
    vecs = [v + ("same",) * (3 - npaths) for v in itertools.product(PMUTS, repeat=npaths)]
    if base["state"]:
        for i in range(3):
            vecs.append(tuple("swapped" if j == i else "same" for j in range(3)))
            vecs.append(tuple("swapped" if j == i else "deleted" if j == (i + 1) % 3 else "same" for j in range(3)))
    combos = []
    for target in TARGETS:
        tv = vecs if target not in ("from-file", "file-file") else [("same",) * 3, ("cached",) + ("same",) * 2, ("uncached",) + ("same",) * 2]
        for vec in tv:
            for untracked in ((False, True) if target not in ("from-file", "file-file") else (False,)):
                for relink in (False, True):
                    combos.append((target, vec, untracked, relink, "none"))
    for target in ("A", "B", "S", "N", "file:x"):
        for loss in ("remove-x", "corrupt-x", "remove-e"):
            # a linked workspace file *is* the cache object: losing it there is not a checkout matter
            if base["link"] == "symlink" or (base["link"] == "hardlink" and loss == "corrupt-x"):
                continue
            for relink in (False, True):
                combos.append((target, ("same",) * 3, False, relink, loss))
                combos.append((target, ("retyped",) + ("same",) * 2, False, relink, loss))
    combos = [c + (False, False) for c in combos]
    # the workspace directory spelled with a trailing separator (vectors with an uncached edit), and the cache
    # opened read-only while it holds an unprotected corrupt copy of x
    for target, vec, untracked, relink, loss, _t, _r in list(combos):
        if loss == "none" and target in ("A", "B") and "uncached" in vec and not untracked:
            combos.append((target, vec, untracked, relink, loss, True, False))
        if loss == "corrupt-x":
            combos.append((target, vec, untracked, relink, loss, False, True))
    combos = [c + (False,) for c in combos]
    for target, vec, untracked, relink, loss, trail, ro, _d in list(combos):
        if loss == "none" and target in ("A", "B", "S") and not untracked and not trail and not ro \
                and ("uncached" in vec or all(m == "same" for m in vec)):
            combos.append((target, vec, untracked, relink, loss, trail, ro, True))
    # recovery: the removal of the corrupt cache object fails during the first attempt and the call is repeated;
    # and (with a State) link clean-up straight after a call that met uncached user data
    combos = [c + (False, False) for c in combos]
    for target, vec, untracked, relink, loss, trail, ro, dangling, _f, _c in list(combos):
        if loss == "corrupt-x" and not ro:
            combos.append((target, vec, untracked, relink, loss, trail, ro, dangling, True, False))
        if loss == "none" and base["state"] and not trail and not dangling and "uncached" in vec:
            combos.append((target, vec, untracked, relink, loss, trail, ro, dangling, False, True))
    for target, vec, untracked, relink, loss, trail, ro, dangling, rmfault, cleanup in combos:
        if True:
            if True:
                if True:
                    cfg = dict(base, target=target, vec=list(vec), untracked=untracked, relink=relink,
                               cacheloss=loss, trail=trail, ro=ro, dangling=dangling, rmfault=rmfault,
                               cleanup=cleanup)
                    if dangling:
                        res["vac"]["dangling_link_runs"] = res["vac"].get("dangling_link_runs", 0) + 1
                    if trail:
                        res["vac"]["trailing_separator_runs"] = res["vac"].get("trailing_separator_runs", 0) + 1
                    if ro:
                        res["vac"]["read_only_cache_runs"] = res["vac"].get("read_only_cache_runs", 0) + 1
                    viol, info = one_exec(cfg)
                    if rmfault and info.get("denied"):
                        res["vac"]["failed_removal_retries"] = res["vac"].get("failed_removal_retries", 0) + 1
                    if cleanup:
                        res["vac"]["cleanups_after_checkout"] = res["vac"].get("cleanups_after_checkout", 0) + 1
                    res["n"] += 1
                    res["trans"] += 2
                    d = digest_obj(cfg)
                    res["states"].append(d)
                    if any(m != "same" for m in vec) or untracked:
                        res["nontrivial"].add(d)
                    if "uncached" in vec or untracked:
                        res["vac"]["uncached_vectors"] += 1
                    if "swapped" in vec:
                        res["vac"]["swapped_vectors"] = res["vac"].get("swapped_vectors", 0) + 1
                    if loss != "none":
                        res["vac"]["cache_loss_runs"] = res["vac"].get("cache_loss_runs", 0) + 1
                    if info["outcome"] == "PromptError":
                        res["vac"]["refusals"] += 1
                    if info["outcome"] == "ok":
                        res["vac"]["completed"] += 1
                    if target in ("file:x", "from-file", "file-file"):
                        res["vac"]["kind_change_runs"] += 1
                    res["outcomes"].add(repr((info["outcome"], sorted(v[0] for v in viol))))
                    for sig, detail in viol:
                        if dangling:
                            sig = sig + "/dangling-link-in-workspace"
                        if rmfault:
                            sig = sig + "/retry-after-failed-removal"
                        if cleanup:
                            sig = sig + "/clean-up-after-the-call"
                        if sig not in sigs:
                            sigs.add(sig)
                            res["viol"].append((sig, detail, dict(cfg, part="checkout")))
    res["outcomes"] = sorted(res["outcomes"])
    res["nontrivial"] = sorted(res["nontrivial"])
    res["sample"] = dict(base, targets=TARGETS, vectors=len(vecs), untracked=[False, True], relink=[False, True])
    return res


# ---- link clean-up --------------------------------------------------------------

LOPS = [("save", "p1"), ("save", "p2"), ("mod", "p1"), ("repl", "p1"), ("rm", "p1"), ("touch", "p1"),
        ("edit-inner", "p2"), ("edit-inner-u", "p2"), ("edit-inner-v", "p2"), ("add-inner", "p2"),
        ("rename-inner", "p2"), ("add-inner-mtime0", "p2"), ("add-inner-loop", "p2"),
        ("clean", ""), ("clean", "p1"), ("clean", "p2")]


def run_links(hist, trail=False):
    from dvc_data.hashfile.state import State

    viol = []
    removed_total = 0
    refused = 0

    def wf(path, data):
        # user edits land within the same second as the recording (1 microsecond logical clock)
        write_file(path, data, stamp_it=False)
        stamp(path, 1000)
    with World() as w:
        root = w.mkdir("repo")
        state = State(root_dir=root + os.sep if trail else root, tmp_dir=w.p("tmp"))
        try:
            p = {"p1": os.path.join(root, "p1"), "p2": os.path.join(root, "p2")}
            wf(p["p1"], b"tracked-1")
            wf(os.path.join(p["p2"], "in1"), b"inner-1")
            wf(os.path.join(p["p2"], "in2"), b"inner-2")
            # same file name in two sub-directories (e.g. train/part-0, test/part-0)
            wf(os.path.join(p["p2"], "u", "part"), b"part-u")
            wf(os.path.join(p["p2"], "v", "part"), b"part-v")
            recorded = {}   # name -> modified since recording?
            for i, op in enumerate(hist):
                k, name = op
                if k == "save":
                    if os.path.lexists(p[name]):
                        try:
                            state.save_link(p[name], LFS)
                            recorded[name] = False
                        except OSError:
                            pass   # recording refused (an entry cannot be examined): the earlier record stands
                elif k == "mod":
                    if os.path.exists(p["p1"]):
                        wf(p["p1"], b"user-modified-%d" % i)
                        if "p1" in recorded:
                            recorded["p1"] = True
                elif k == "touch":
                    if os.path.exists(p["p1"]):
                        stamp(p["p1"], 1000)
                        if "p1" in recorded:
                            recorded["p1"] = True
                elif k == "repl":
                    if os.path.exists(p["p1"]):
                        tmp = p["p1"] + ".new"
                        wf(tmp, b"tracked-1")
                        os.rename(tmp, p["p1"])
                        stamp(p["p1"], 1000)
                        if "p1" in recorded:
                            recorded["p1"] = True
                elif k == "rm":
                    if os.path.exists(p["p1"]):
                        os.unlink(p["p1"])
                elif k == "edit-inner":
                    f = os.path.join(p["p2"], "in1")
                    if os.path.exists(f):
                        wf(f, b"inner-edited-%d" % i)
                        if "p2" in recorded:
                            recorded["p2"] = True
                elif k in ("edit-inner-u", "edit-inner-v"):
                    f = os.path.join(p["p2"], k[-1], "part")
                    if os.path.exists(f):
                        wf(f, b"part-edited-%d" % i)
                        if "p2" in recorded:
                            recorded["p2"] = True
                elif k == "add-inner":
                    if os.path.isdir(p["p2"]):
                        wf(os.path.join(p["p2"], f"new{i}"), b"user-added")
                        if "p2" in recorded:
                            recorded["p2"] = True
                elif k == "add-inner-mtime0":
                    # a user file whose timestamp is the epoch (extracted from an archive with zeroed times)
                    if os.path.isdir(p["p2"]):
                        f0 = os.path.join(p["p2"], f"zero{i}")
                        write_file(f0, b"user-added-with-mtime-0", stamp_it=False)
                        os.utime(f0, ns=(0, 0))
                        if "p2" in recorded:
                            recorded["p2"] = True
                elif k == "add-inner-loop":
                    # the user leaves a symbolic link that points at itself (stat fails with ELOOP) next to
                    # a new file of theirs
                    if os.path.isdir(p["p2"]):
                        os.symlink(f"loop{i}", os.path.join(p["p2"], f"loop{i}"))
                        if "p2" in recorded:
                            recorded["p2"] = True
                elif k == "rename-inner":
                    f = os.path.join(p["p2"], "in2")
                    if os.path.exists(f):
                        os.rename(f, os.path.join(p["p2"], f"in2-renamed{i}"))  # mtime kept
                        if "p2" in recorded:
                            recorded["p2"] = True
                elif k == "clean":
                    used = [p[name]] if name else []
                    before = {n: os.path.lexists(pp) for n, pp in p.items()}
                    before_files = walk_files(root)
                    try:
                        unused = state.get_unused_links(used, LFS)
                    except OSError:
                        # clean-up refuses (an entry cannot be examined): nothing may have been removed
                        unused = []
                        refused += 1
                    state.remove_links(unused, LFS)
                    for n, pp in p.items():
                        if before[n] and not os.path.lexists(pp):
                            removed_total += 1
                            why = None
                            if n not in recorded:
                                why = "never-recorded"
                            elif n == name:
                                why = "listed-as-used"
                            elif recorded[n]:
                                why = "modified-since-recorded"
                            if why:
                                viol.append((f"clean-up-removed-path/{why}", f"{n} at step {i} of {hist}"))
                            recorded.pop(n, None)
                    after_files = walk_files(root)
                    for rel in before_files:
                        top = rel.split("/")[0]
                        if rel not in after_files and top not in p:
                            viol.append(("clean-up-removed-unrelated-path", rel))
        finally:
            state.close()
    return viol, removed_total, refused


def links_case(case):
    res = {"n": 0, "trans": 0, "states": [], "outcomes": set(), "nontrivial": set(), "viol": [],
           "vac": {"cleanups_that_removed": 0, "link_histories": 0}}
    sigs = set()
    pre = [tuple(o) for o in case["prefix"]]
    for rest in itertools.product(LOPS, repeat=case["depth"] - len(pre)):
        hist = pre + list(rest)
        if not any(o[0] == "clean" for o in hist):
            continue
        viol, removed, refused = run_links(hist)
        res["vac"]["cleanups_refused"] = res["vac"].get("cleanups_refused", 0) + refused
        if hist[-1][0] == "clean" and hist[-1][1]:
            # the same history with the State's root directory spelled with a trailing separator
            v2, r2, _rf = run_links(hist, trail=True)
            viol = list(viol) + [(s_ + "/root-with-trailing-separator", d_) for s_, d_ in v2]
            res["n"] += 1
            res["vac"]["trailing_root_histories"] = res["vac"].get("trailing_root_histories", 0) + 1
        res["n"] += 1
        res["trans"] += len(hist)
        res["vac"]["link_histories"] += 1
        res["vac"]["cleanups_that_removed"] += 1 if removed else 0
        d = digest_obj(hist)
        res["states"].append(d)
        if any(o[0] == "save" for o in hist):
            res["nontrivial"].add(d)
        res["outcomes"].add(repr((removed, sorted(v[0] for v in viol))))
        for sig, detail in viol:
            if sig not in sigs:
                sigs.add(sig)
                res["viol"].append((sig, detail, {"part": "links", "hist": [list(o) for o in hist]}))
    res["outcomes"] = sorted(res["outcomes"])
    res["nontrivial"] = sorted(res["nontrivial"])
    return res


# ---- user edits landing inside a checkout call ------------------------------------------

_FL = {"on": False, "ws": None, "n": 0, "at": None, "edit": None, "hooked": False}


def _fl_event(path):
    if not _FL["on"]:
        return
    try:
        if isinstance(path, bytes):
            path = path.decode()
        if not isinstance(path, str) or not path.startswith(_FL["ws"]):
            return
    except Exception:  # noqa: BLE001
        return
    n = _FL["n"]
    _FL["n"] = n + 1
    if _FL["at"] is not None and n == _FL["at"]:
        _FL["on"] = False
        try:
            _FL["edit"]()
        finally:
            _FL["on"] = True


def _fl_install():
    import sys

    if _FL["hooked"]:
        return
    _FL["hooked"] = True
    o_stat, o_lstat = os.stat, os.lstat

    def stat_(path, *a, **kw):
        _fl_event(path)
        return o_stat(path, *a, **kw)

    def lstat_(path, *a, **kw):
        _fl_event(path)
        return o_lstat(path, *a, **kw)

    os.stat, os.lstat = stat_, lstat_

    def hook(event, args):
        if _FL["on"] and event in ("open", "os.scandir", "os.listdir", "os.rename", "os.remove", "os.chmod",
                                   "os.utime", "shutil.copyfile", "os.link", "os.symlink"):
            _fl_event(args[0] if args else None)

    sys.addaudithook(hook)


# Only files that the checkout leaves alone are edited: a file the checkout itself rewrites or removes has
# an inherent check-then-act window (and the property quantifies over prior workspace states, not over edits
# racing the call), so nothing is claimed for those.
INFLIGHT = [("A", "s/c"), ("A", "a"), ("A", "e"), ("B", "s/c")]


def run_inflight(cfg, at):
    """checkout(prior A -> target) with a State; the user replaces one file with uncached bytes just before
    the library's `at`-th file-system access below the workspace; then unused links are cleaned up."""
    from dvc_data.hashfile.checkout import checkout
    from dvc_data.hashfile.state import State

    _fl_install()
    viol = []
    with World() as w:
        state = State(root_dir=w.root, tmp_dir=w.p("tmp"))
        try:
            odb = make_odb(cfg["kind"], w.p("cache"), type=[cfg["link"]], state=state)
            fill_cache(odb, extra=["z"])
            ws = w.p("ws")
            checkout(ws, LFS, load_obj(odb, "A"), odb, force=True, state=state if cfg["recorded"] else None)
            f = os.path.join(ws, *cfg["file"].split("/"))
            user = UNCACHED + b" in flight"
            fired = []

            def edit():
                if os.path.lexists(f):
                    os.unlink(f)
                write_file(f, user)
                fired.append(1)

            _FL.update(ws=ws, n=0, at=at, edit=edit, on=True)
            outcome = "ok"
            try:
                checkout(ws, LFS, load_obj(odb, cfg["target"]), odb, force=False, state=state)
            except Exception as e:  # noqa: BLE001
                outcome = type(e).__name__
            finally:
                _FL["on"] = False
            events = _FL["n"]
            if fired:
                now = walk_files(ws)
                if user not in [v for v in now.values()]:
                    viol.append(("in-flight-user-edit-destroyed-by-checkout",
                                 f"{cfg} at access {at}: outcome={outcome}"))
                else:
                    unused = state.get_unused_links([], LFS)
                    state.remove_links(unused, LFS)
                    now = walk_files(ws) if os.path.lexists(ws) else {}
                    if user not in [v for v in now.values()]:
                        viol.append(("in-flight-user-edit-destroyed-by-clean-up",
                                     f"{cfg} at access {at}: outcome={outcome} unused={unused}"))
        finally:
            state.close()
    return viol, events, bool(fired)


def inflight_case(case):
    res = {"n": 0, "trans": 0, "states": [], "outcomes": set(), "nontrivial": set(), "viol": [],
           "vac": {"inflight_edits": 0}}
    cfg = case["cfg"]
    _v, events, _f = run_inflight(cfg, None)
    sigs = set()
    for at in range(events):
        viol, _e, fired = run_inflight(cfg, at)
        res["n"] += 1
        res["trans"] += 3
        d = digest_obj((cfg, at))
        res["states"].append(d)
        if fired:
            res["nontrivial"].add(d)
            res["vac"]["inflight_edits"] += 1
        res["outcomes"].add(repr(sorted(v[0] for v in viol)))
        for sig, detail in viol:
            if sig not in sigs:
                sigs.add(sig)
                res["viol"].append((sig, detail, {"part": "inflight", "cfg": cfg, "at": at}))
    res["outcomes"] = sorted(res["outcomes"])
    res["nontrivial"] = sorted(res["nontrivial"])
    res["sample"] = dict(cfg, accesses=events)
    return res


def run_any(case):
    if case.get("part") == "inflight":
        return inflight_case(case)
    return links_case(case) if case.get("part") == "links" else run_case(case)


def replay(case):
    if case.get("part") == "links":
        h = [tuple(o) for o in case["hist"]]
        return list(run_links(h)[0]) + [(s_ + "/root-with-trailing-separator", d_)
                                        for s_, d_ in run_links(h, trail=True)[0]]
    if case.get("part") == "inflight":
        return run_inflight(case["cfg"], case["at"])[0]
    cfg = {k: v for k, v in case.items() if k != "part"}
    v = one_exec(cfg)[0]
    suf = "".join(x for k, x in (("dangling", "/dangling-link-in-workspace"), ("rmfault", "/retry-after-failed-removal"),
                                 ("cleanup", "/clean-up-after-the-call")) if cfg.get(k))
    return [(s_ + suf, d_) for s_, d_ in v]


def run(ctx):
    npaths = 3 if ctx.tier == "thorough" else 2
    depth = 4
    ctx.rule = (
        f"E2: tree A checked out, then every mutation vector over {npaths} paths x {{untouched, deleted, edited to "
        "cached content, edited to uncached content, re-typed copy}} (+ untracked file on/off; + the cache losing / corrupting an object after the first checkout verified it) x target {same, other "
        "tree, subset, disjoint tree, directory->single file, single file->directory, single file->another single file} x both store classes x link "
        "type {copy, hardlink, symlink} x relink x prompt {absent, declining} x state on/off, force off; link "
        f"clean-up: every history of length {depth} over {len(LOPS)} operations (record, modify, touch, replace, "
        "remove, edit/add/rename inside a tracked directory, clean-up with each used list) containing a clean-up; "
        "in-flight: checkout A->A / A->B with a State (prior link record present / absent), an untouched file "
        "replaced by uncached bytes before each of the call's accesses (stat, lstat, open, scandir, rename, "
        "remove, chmod, utime, link) below the workspace, then clean-up with an empty used list; "
        "non-trivial = some user mutation / some recorded link"
    )
    ctx.bound = {"mutations": PMUTS, "targets": TARGETS, "paths_varied": npaths, "link_history_depth": depth}
    ctx.assumptions = [
        "user mutations happen between, not during, library calls - except in the in-flight part, which "
        "replaces a file that the checkout leaves alone (same entry in the old and the new tree) just before "
        "every file-system access the call makes below the workspace; files the checkout itself rewrites or "
        "removes have an inherent check-then-act window and are not claimed",
        "'recoverable' = the cache holds an object named by the md5 of the bytes with exactly those bytes",
        "clean-up: only safety is demanded (what is removed was recorded, unused and unmodified)",
    ]
    ctx.require("refusals", "uncached_vectors", "completed", "kind_change_runs", "cache_loss_runs", "cleanups_that_removed",
                "link_histories", "swapped_vectors", "inflight_edits", "trailing_separator_runs", "read_only_cache_runs",
                "trailing_root_histories", "dangling_link_runs", "failed_removal_retries", "cleanups_after_checkout",
                "cleanups_refused")
    cs = []
    for kind in ("local", "base"):
        for link in ("copy", "hardlink", "symlink"):
            for prompt in ("none", "declining"):
                for st in (False, True):
                    cs.append({"base": {"kind": kind, "link": link, "prompt": prompt, "state": st},
                               "npaths": npaths})
    for a in LOPS:
        for b in LOPS:
            cs.append({"part": "links", "prefix": [list(a), list(b)], "depth": depth})
    for kind in ("local", "base"):
        for link in ("copy", "hardlink"):
            for target, f in INFLIGHT:
                for recorded in (False, True):
                    cs.append({"part": "inflight", "cfg": {"kind": kind, "link": link, "target": target, "file": f,
                                                           "recorded": recorded}})
    ctx.run_cases("run_any", cs, chunksize=1, det=2)
