"""C02 stage -> store -> checkout round trip reproduces the data exactly.

E1: all trees over a small path / content alphabet (and single files) x store
class x {object-level checkout, index-level compare/apply, lazily loaded
directory entry} x link type x hash-state; output tree compared byte for byte.
"""

import itertools
import os

from .. import ref
from ..lab import CONTENTS, LFS, make_odb
from ..world import World, digest_obj, walk_dirs, walk_files, write_tree

U = ["a", "b", "s/a", "s/é", "s/t/a"]
BIG = {"big1": b"1" * (2**20 + 1), "big2": b"2" * (2**20 + 1)}
from ..lab import SPECIAL, SPECIAL_TREE  # noqa: E402

CONTENTS = dict(CONTENTS, **BIG, **SPECIAL)

EXTRA_TREES = [
    dict(SPECIAL_TREE),                                                   # special names (see lab.SPECIAL_NAMES)
    {"a\\b": "x", "a/b": "crlf", "s/t\\u": "bin"},                       # backslash is a legal name character
    {"run/a": "x", "run2/b": "crlf", "sub/a/f": "x", "sub/ab/g": "bin"},   # sibling names sharing a string prefix
    {"L1": "big1", "L2": "big2", "a": "x", "z": "crlf"},                   # two large files route through the pool
    {"d/L1": "big1", "d/L2": "big1", "d/a": "x", "d/z": "e"},
    {"sp ace": "lf", "a.dir": "x", "s/t/a": "bin"},
    {"a": "x", "b": "x", "s/a": "x"},
    {"s/t/a": "e", "s/é": "e"},
    {"a": "crlf", "b": "lf"},
    {"a": "x", "b": "y", "s/a": "z", "s/é": "w", "s/t/a": "v"},
]
LINKS = ["copy", "hardlink", "symlink", "default"]
PATHS = ["object", "index", "lazy", "index-prefix", "index-update", "index-resave"]


def trees(tier):
    K = ["e", "x", "crlf", "bin"]
    kmax = 3 if tier == "thorough" else 2
    out = []
    for k in range(1, kmax + 1):
        for paths in itertools.combinations(U, k):
            for cs in itertools.product(K, repeat=k):
                out.append(dict(zip(paths, cs)))
    out.extend(EXTRA_TREES)
    if tier == "thorough":
        for c in ("lf", "y"):
            out.append({"a": c, "s/é": "x"})
    return out


def one_exec(tree, kind, path, link, with_state, single=None, pre=False):
    from dvc_data.hashfile import load
    from dvc_data.hashfile.build import build
    from dvc_data.hashfile.checkout import checkout
    from dvc_data.hashfile.hash_info import HashInfo
    from dvc_data.hashfile.meta import Meta
    from dvc_data.hashfile.state import State
    from dvc_data.hashfile.transfer import transfer
    from dvc_data.hashfile.tree import Tree
    from dvc_data.index import DataIndex, DataIndexEntry, ObjectStorage
    from dvc_data.index import build as ibuild
    from dvc_data.index import md5 as imd5
    from dvc_data.index import save as isave
    from dvc_data.index.checkout import apply, compare

    viol = []
    with World() as w:
        state = State(root_dir=w.root, tmp_dir=w.p("tmp")) if with_state else None
        cfg = {}
        if state is not None:
            cfg["state"] = state
        if link != "default":
            cfg["type"] = [link]
        odb = make_odb(kind, w.p("odb"), **cfg)
        try:
            if single is not None:
                src = w.p("ws")
                write_tree(w.p(), {"ws": CONTENTS[single]})
                want = {"": CONTENTS[single]}
                want_listing = None
            else:
                src = w.p("ws")
                files = {rel: CONTENTS[c] for rel, c in tree.items()}
                write_tree(src, files)
                os.makedirs(os.path.join(src, "emptyd", "deeper"), exist_ok=True)  # not tracked
                want = dict(files)
                want_listing = {rel: ref.md5(b) for rel, b in files.items()}
            if state is not None and single is None:
                # partially warm hash-state: the last file of every directory is already known
                from dvc_data.hashfile.hash import hash_file

                for root, _dirs, fnames in os.walk(src):
                    if fnames:
                        last = os.path.join(root, sorted(fnames)[-1])
                        hash_file(last, LFS, "md5", state=state)
            if pre and single is None:
                # an earlier staging of the same workspace against the same store that was never transferred,
                # after which the user moves the first file aside and writes new bytes at its old path
                build(odb, src, LFS, "md5")
                first = sorted(files)[0]
                moved = "moved-aside"
                os.replace(os.path.join(src, *first.split("/")), os.path.join(src, moved))
                files[moved] = files[first]
                files[first] = b"rewritten after the first staging"
                write_tree(src, {first: files[first]})
                want = dict(files)
                want_listing = {rel: ref.md5(b) for rel, b in files.items()}
            out = w.p("out", "target")
            os.makedirs(w.p("out"))
            if path in ("object", "lazy") or single is not None and path != "index":
                staging, meta, obj = build(odb, src, LFS, "md5")
                res = transfer(staging, odb, {obj.hash_info}, shallow=False, hardlink=False)
                if res.failed:
                    viol.append(("transfer-reported-failures", repr(res.failed)))
                if single is None:
                    if obj.oid != ref.tree_oid(want_listing):
                        viol.append(("staged-identifier-differs-from-reference", obj.oid))
                    if meta.nfiles != len(want) or meta.size != sum(len(b) for b in want.values()):
                        viol.append(("reported-count-or-size-wrong",
                                     f"nfiles={meta.nfiles} size={meta.size} want {len(want)} {sum(len(b) for b in want.values())}"))
                    loaded = Tree.load(odb, obj.hash_info)
                    got_listing = {"/".join(k): h.value for k, _m, h in loaded}
                    if got_listing != want_listing:
                        viol.append(("reloaded-listing-differs-from-built", f"{got_listing} != {want_listing}"))
                else:
                    if obj.oid != ref.md5(CONTENTS[single]):
                        viol.append(("staged-file-identifier-differs", obj.oid))
                    if meta.size != len(CONTENTS[single]):
                        viol.append(("reported-count-or-size-wrong", f"size={meta.size}"))
                if path == "object" or single is not None:
                    target = load(odb, obj.hash_info)
                    checkout(out, LFS, target, odb, force=False, state=state)
                else:
                    idx = DataIndex({(): DataIndexEntry(key=(), meta=Meta(isdir=True),
                                                        hash_info=HashInfo("md5", obj.oid))})
                    idx.storage_map.add_cache(ObjectStorage((), odb))
                    errors = []
                    diff = compare(None, idx)
                    apply(diff, out, LFS, storage="cache", state=state,
                          onerror=lambda *a: errors.append(a))
                    if errors:
                        viol.append(("index-apply-reported-errors", repr(errors)[:300]))
            else:
                if single is not None:
                    from dvc_data.index import add as iadd

                    idx = DataIndex()
                    iadd(idx, src, LFS, ())
                elif path == "index-prefix":
                    # the tracked tree is the sub-directory `ws` of a larger root; its data storage is registered
                    # for the key ("ws",) with an explicit, different prefix (paths resolve from the root)
                    from dvc_data.index import FileStorage

                    write_tree(w.p(), {"a": b"a decoy next to the tracked directory", "b": b"another"})
                    idx0 = ibuild(w.p(), LFS, ignore=None)
                    idx = DataIndex()
                    for k, e in idx0.iteritems():
                        if k[:1] == ("ws",):
                            idx[k] = e
                    idx.storage_map.add_data(FileStorage(("ws",), LFS, w.p(), prefix=()))
                elif path == "index-update":
                    # an earlier index of the same workspace; a file is then rewritten in place (same length,
                    # same inode, 1 microsecond later) and the new index takes over hashes by metadata
                    from dvc_data.index import update as iupdate

                    old = imd5(ibuild(src, LFS), state=state)
                    first = sorted(files)[0]
                    if files[first]:
                        files[first] = bytes((b + 1) % 256 for b in files[first])
                        pth = os.path.join(src, *first.split("/"))
                        ns0 = os.stat(pth).st_mtime_ns
                        with open(pth, "r+b") as fh:
                            fh.write(files[first])
                        os.utime(pth, ns=(ns0 + 500, ns0 + 500))
                        want = dict(files)
                        want_listing = {rel: ref.md5(b) for rel, b in files.items()}
                    idx = ibuild(src, LFS)
                    iupdate(idx, old)
                elif path == "index-resave":
                    # the index was saved once already; then the last file is rewritten (other bytes, other
                    # length), its entry is refreshed in the SAME index object, and the index is saved again
                    from dvc_data.index.build import build_entry

                    idx = imd5(ibuild(src, LFS), state=state)
                    isave(idx, odb=odb)
                    last = sorted(files)[-1]
                    files[last] = b"rewritten after the first save: " + files[last]
                    write_tree(src, {last: files[last]})
                    key = tuple(last.split("/"))
                    ne = build_entry(os.path.join(src, *key), LFS, compute_hash=True)
                    idx.add(DataIndexEntry(key=key, meta=ne.meta, hash_info=ne.hash_info))
                    want = dict(files)
                    want_listing = {rel: ref.md5(b) for rel, b in files.items()}
                else:
                    idx = ibuild(src, LFS)
                idx = imd5(idx, state=state)
                isave(idx, odb=odb)
                idx.storage_map.add_cache(ObjectStorage((), odb))
                errors = []
                diff = compare(None, idx)
                apply(diff, out, LFS, storage="cache", state=state, onerror=lambda *a: errors.append(a))
                if errors:
                    viol.append(("index-apply-reported-errors", repr(errors)[:300]))
                if single is None:
                    for k, e in idx.iteritems():
                        if path == "index-prefix":
                            if k == ("ws",):
                                continue
                            k = k[1:]
                        if e.meta and e.meta.isdir and e.hash_info:
                            pre = "/".join(k) + "/"
                            sub = {rel[len(pre):]: h for rel, h in want_listing.items() if rel.startswith(pre)}
                            if e.hash_info.value != ref.tree_oid(sub):
                                viol.append(("saved-subdir-identifier-differs", f"{k}: {e.hash_info.value}"))
                            if e.meta.nfiles != len(sub):
                                viol.append(("reported-count-or-size-wrong", f"{k}: nfiles={e.meta.nfiles} want {len(sub)}"))
            # the store still serves the same data: a second round trip from it into another location
            out2 = w.p("out", "again")
            try:
                if path == "object" or (single is not None and path != "index"):
                    checkout(out2, LFS, load(odb, obj.hash_info), odb, force=False, state=state)
                elif path == "lazy":
                    idx2 = DataIndex({(): DataIndexEntry(key=(), meta=Meta(isdir=True),
                                                         hash_info=HashInfo("md5", obj.oid))})
                    idx2.storage_map.add_cache(ObjectStorage((), odb))
                    apply(compare(None, idx2), out2, LFS, storage="cache", state=state)
                else:
                    apply(compare(None, idx), out2, LFS, storage="cache", state=state)
                if path == "index-prefix":
                    out2 = os.path.join(out2, "ws")
                if walk_files(out2) != want:
                    viol.append((f"second-round-trip-differs/{path}", f"{sorted(walk_files(out2))} vs {sorted(want)}"))
            except Exception as e:  # noqa: BLE001
                viol.append((f"second-round-trip-raises-{type(e).__name__}/{path}", repr(e)))
            # ... and a third one into the second location again, after the user has wiped it
            try:
                import shutil

                out3 = w.p("out", "again")
                if os.path.isdir(out3) and not os.path.islink(out3):
                    shutil.rmtree(out3)
                elif os.path.lexists(out3):
                    os.unlink(out3)
                if path == "object" or (single is not None and path != "index"):
                    checkout(out3, LFS, load(odb, obj.hash_info), odb, force=False, state=state)
                elif path == "lazy":
                    idx3 = DataIndex({(): DataIndexEntry(key=(), meta=Meta(isdir=True),
                                                         hash_info=HashInfo("md5", obj.oid))})
                    idx3.storage_map.add_cache(ObjectStorage((), odb))
                    apply(compare(None, idx3), out3, LFS, storage="cache", state=state)
                else:
                    apply(compare(None, idx), out3, LFS, storage="cache", state=state)
                if path == "index-prefix":
                    out3 = os.path.join(out3, "ws")
                if walk_files(out3) != want:
                    viol.append((f"round-trip-into-a-wiped-location-differs/{path}",
                                 f"{sorted(walk_files(out3))} vs {sorted(want)}"))
            except Exception as e:  # noqa: BLE001
                viol.append((f"round-trip-into-a-wiped-location-raises-{type(e).__name__}/{path}", repr(e)))
            if path == "index-prefix":
                out = os.path.join(out, "ws")
            got = walk_files(out)
            if got != want:
                lost = sorted(set(want) - set(got))
                extra = sorted(set(got) - set(want))
                diffb = sorted(k for k in set(got) & set(want) if got[k] != want[k])
                kind_ = "lost-path" if lost else ("extra-path" if extra else "bytes-differ")
                viol.append((f"round-trip-{kind_}/{path}", f"lost={lost} extra={extra} differ={diffb}"))
            if single is None and os.path.isdir(out):
                dirs = walk_dirs(out)
                wantd = {"/".join(rel.split("/")[:i]) for rel in want for i in range(1, len(rel.split("/")))}
                # empty source directories are not tracked by directory objects; the index-level
                # path may mirror them: parents of files must exist, nothing outside the source may
                srcd = walk_dirs(src)
                if not (wantd <= dirs <= srcd):
                    viol.append((f"round-trip-directories-differ/{path}", f"{sorted(dirs)} vs {sorted(wantd)}"))
                if not path.startswith("index") and dirs != wantd:
                    viol.append((f"object-checkout-created-untracked-directory/{path}", f"{sorted(dirs - wantd)}"))
        finally:
            if state is not None:
                state.close()
    return viol


def safe_exec(tree, kind, path, link, ws, single, pre=False):
    try:
        return one_exec(tree, kind, path, link, ws, single, pre)
    except Exception as e:  # noqa: BLE001
        import traceback

        return [(f"round-trip-raises-{type(e).__name__}/{path}", f"{e!r} {traceback.format_exc()[-600:]}")]


def run_case(case):
    res = {"n": 0, "trans": 0, "states": [], "outcomes": set(), "nontrivial": set(), "viol": [],
           "vac": {"duplicate_content_trees": 0, "nested_trees": 0, "linked_checkouts": 0, "restaged_runs": 0}}
    sigs = set()
    tree, single = case.get("tree"), case.get("single")
    for kind in ("local", "base"):
        for path in PATHS:
            if single is not None and path in ("lazy", "index-prefix", "index-update", "index-resave"):
                continue
            for link in LINKS:
                for ws, pre in ((False, False), (True, False), (False, True), (True, True)):
                    if pre and (single is not None or link != "copy"):
                        continue
                    viol = safe_exec(tree, kind, path, link, ws, single, pre)
                    res["n"] += 1
                    res["trans"] += 4 + pre
                    res["vac"]["restaged_runs"] += pre
                    res["outcomes"].add(repr(sorted(v[0] for v in viol)))
                    if link in ("hardlink", "symlink"):
                        res["vac"]["linked_checkouts"] += 1
                    for sig, detail in viol:
                        if sig not in sigs:
                            sigs.add(sig)
                            res["viol"].append((sig, detail, {"tree": tree, "single": single, "kind": kind,
                                                              "path": path, "link": link, "state": ws, "pre": pre}))
    d = digest_obj((tree, single))
    res["states"].append(d)
    if tree and len(tree) >= 2:
        res["nontrivial"].add(d)
        if len(set(tree.values())) < len(tree):
            res["vac"]["duplicate_content_trees"] += 1
        if any("/" in r for r in tree):
            res["vac"]["nested_trees"] += 1
    res["outcomes"] = sorted(res["outcomes"])
    res["nontrivial"] = sorted(res["nontrivial"])
    if case.get("i") == 40:
        res["sample"] = {"tree": tree, "x": "2 store classes x 3 paths x 4 link types x state on/off"}
    return res


def replay(case):
    return safe_exec(case["tree"], case["kind"], case["path"], case["link"], case["state"], case["single"],
                     case.get("pre", False))


def run(ctx):
    ts = trees(ctx.tier)
    ctx.rule = (
        f"E1: {len(ts)} trees = every set of <= {3 if ctx.tier == 'thorough' else 2} files over paths {U} x "
        "contents {empty, x, CRLF text, binary} + hand-picked trees (space / '.dir' / non-ASCII names, "
        "duplicates, all-empty, 5 files) and 6 single files, each x {LocalHashFileDB, HashFileDB} x "
        "{object-level checkout, index build/md5/save/compare/apply, lazily loaded directory entry} x link "
        "type {copy, hardlink, symlink, default} x state on/off; every execution is followed by a second round "
        "trip from the same store into another location; with link type copy also after an earlier, never "
        "transferred staging of the workspace whose first file was then moved aside and rewritten; source "
        "trees also hold empty directories; "
        "non-trivial = tree of >= 2 files"
    )
    ctx.bound = {"trees": len(ts), "paths": U, "links": LINKS, "round_trip_paths": PATHS}
    ctx.assumptions = [
        "hash algorithm md5 only: a legacy md5-dos2unix store identifies CRLF/LF twins by design",
        "reflink is unsupported on this kernel's tmpfs: the default link type exercises the reflink attempt "
        "and its copy fallback, not a successful clone",
    ]
    ctx.require("duplicate_content_trees", "nested_trees", "linked_checkouts", "restaged_runs")
    cs = [{"tree": t, "i": i} for i, t in enumerate(ts)]
    cs += [{"single": c} for c in ("e", "x", "crlf", "lf", "bin", "w")]
    ctx.run_cases("run_case", cs, chunksize=2, det=4)
