#!/usr/bin/env python3
"""Regenerate /verif/MANIFEST.json from mc/registry.py (and validate it)."""

import json
import os
import sys

HERE = os.path.dirname(os.path.dirname(os.path.abspath(__file__)))
sys.path.insert(0, HERE)

from mc.registry import CHECKS, ENGINES, NOT_APPLICABLE  # noqa: E402

PY = "/venv/bin/python"

props = [json.loads(l)["id"] for l in open(os.path.join(HERE, "properties.jsonl"))]

checks = []
for pid in props:
    if pid not in CHECKS:
        continue
    c = CHECKS[pid]
    checks.append(
        {
            "property_id": pid,
            "quick_cmd": f"{PY} -m mc check {pid} --tier quick",
            "thorough_cmd": f"{PY} -m mc check {pid} --tier thorough",
            "evidence_file": f"/verif/evidence/{pid}.json",
            "replay_cmd_template": f"{PY} -m mc replay {{path}}",
            "engine": c["engine"],
            "level_claimed": {
                "category": "model_checking",
                "text": c["text"],
                "design_ref": c["design_ref"],
            },
            "level_note": c["note"],
            "technique": c["technique"],
        }
    )

na = [
    {"property_id": pid, "reason": NOT_APPLICABLE.get(pid, "check not built yet (work in progress)")}
    for pid in props
    if pid not in CHECKS
]

manifest = {
    "version": 1,
    "setup_cmd": f"{PY} -m mc.setup",
    "hooks": {
        "guard": "DVC_DATA_VERIF",
        "enable": "no source hooks: every seam is applied from the harness (module attribute "
        "replacement, FileSystem subclasses, sys.addaudithook); checks import /repo/src directly "
        "(editable install), so there is nothing to build",
        "baseline_off_cmd": "cd /repo && env -u DVC_DATA_VERIF /venv/bin/python -m pytest -ra -q "
        "-p no:cacheprovider --timeout=900 --continue-on-collection-errors",
        "source_commits": [],
        "add_only": True,
    },
    "engines": ENGINES,
    "checks": checks,
    "not_applicable": na,
    "notes": "All checks run the real dvc_data code from /repo/src under a bounded exhaustive "
    "explorer (mc/). Known findings / fixed defects: /verif/known_findings.txt. "
    "Seeded mutants: /verif/seeded/. Design: /verif/DESIGN.md.",
}

out = os.path.join(HERE, "MANIFEST.json")
with open(out, "w") as f:
    json.dump(manifest, f, indent=1)
    f.write("\n")

try:
    import jsonschema

    schema = json.load(open("/root/.vp/MANIFEST.schema.json"))
    jsonschema.validate(manifest, schema)
    print("MANIFEST.json valid;", len(checks), "checks,", len(na), "not_applicable")
except ImportError:
    print("MANIFEST.json written (jsonschema not importable here; not validated)")
