#!/usr/bin/env python3
"""Re-evaluate every kept seeded change against the current checks and write seeded/README.md.

usage: tools/seed_matrix.py [--only name-substring] [--jobs N]
Each seed is evaluated by tools/seed_eval.py (scratch copy of /repo, never /repo itself) against the
check of its own property (plus the extra checks recorded in its meta.json under "also").
"""

import json
import os
import subprocess
import sys
from concurrent.futures import ThreadPoolExecutor

VERIF = os.path.dirname(os.path.dirname(os.path.abspath(__file__)))
SEEDED = os.path.join(VERIF, "seeded")


def evaluate(name):
    d = os.path.join(SEEDED, name)
    meta = json.load(open(os.path.join(d, "meta.json")))
    checks = [meta["property"]] + [c for c in meta.get("also", []) if c != meta["property"]]
    tmp = os.path.join("/dev/shm", f"seedmeta.{name}.json")
    json.dump({"property": meta["property"], "summary": meta.get("summary"), "needs": meta.get("needs"),
               "files": meta.get("files")}, open(tmp, "w"))
    # seed_eval overwrites patch/demo with themselves: evaluate from copies
    p2, d2 = f"/dev/shm/seedpatch.{name}.diff", f"/dev/shm/seeddemo.{name}.py"
    subprocess.check_call(["cp", os.path.join(d, "patch.diff"), p2])
    subprocess.check_call(["cp", os.path.join(d, "demo.py"), d2])
    r = subprocess.run([sys.executable, os.path.join(VERIF, "tools", "seed_eval.py"), name, p2, d2, tmp,
                        "--checks", ",".join(checks)], capture_output=True, text=True)
    for f in (tmp, p2, d2):
        os.unlink(f)
    new = json.load(open(os.path.join(d, "meta.json")))
    if meta.get("also"):
        new["also"] = meta["also"]
    if meta.get("origin"):
        new["origin"] = meta["origin"]
    json.dump(new, open(os.path.join(d, "meta.json"), "w"), indent=1)
    return name, r.stdout.strip().splitlines()


def readme():
    rows = []
    for name in sorted(os.listdir(SEEDED)):
        mp = os.path.join(SEEDED, name, "meta.json")
        if not os.path.exists(mp):
            continue
        m = json.load(open(mp))
        caught = [f"{c}: " + ", ".join(s.split(" ")[0] for s in v["signatures"][:3])
                  for c, v in m.get("checks", {}).items() if v["rc"] == 1]
        missed = [c for c, v in m.get("checks", {}).items() if v["rc"] != 1]
        rows.append((name, m.get("property"), (m.get("summary") or "").replace("|", "/"),
                     (m.get("needs") or "").replace("|", "/"), "; ".join(caught) or "-", ", ".join(missed) or "-"))
    with open(os.path.join(SEEDED, "README.md"), "w") as f:
        f.write("# Seeded changes\n\n"
                "Every directory holds `patch.diff` (applies to /repo at the repository root), `demo.py` (fails with the\n"
                "patch, passes without) and `meta.json` (what it breaks, what it needs to manifest, what was run, which\n"
                "checks report it and with which signatures). `agent-*`/`agent3-*` were written by independent sub-agents that saw only\n"
                "the property text; `regression-*` are the reverse patches of the `fix:` commits (the original defects).\n"
                "All were confirmed by `tools/seed_eval.py`: the repository's suite passes with the patch (164 passed),\n"
                "the demo exits non-zero with it and zero without it. Regenerate with `tools/seed_matrix.py`.\n\n"
                "| seed | property | change | needs | caught by (signatures) | not caught by |\n|---|---|---|---|---|---|\n")
        for r in rows:
            f.write("| " + " | ".join(str(x) for x in r) + " |\n")
    return rows


def main():
    args = sys.argv[1:]
    only = args[args.index("--only") + 1] if "--only" in args else None
    jobs = int(args[args.index("--jobs") + 1]) if "--jobs" in args else 1
    if "--readme-only" not in args:
        names = [n for n in sorted(os.listdir(SEEDED)) if os.path.isdir(os.path.join(SEEDED, n)) and (not only or only in n)]
        with ThreadPoolExecutor(jobs) as ex:
            for name, out in ex.map(evaluate, names):
                print("\n".join(l[:200] for l in out[:6]), flush=True)
    rows = readme()
    miss = [r for r in rows if r[4] == "-"]
    print(f"{len(rows)} seeds, {len(rows) - len(miss)} caught by their own property's check")
    for r in miss:
        print("  MISSED", r[0])


if __name__ == "__main__":
    main()
