"""Per-property registration used by tools/gen_manifest.py."""

ENGINES = [
    {"name": "E1-product", "path": "mc/harness.py", "kind_free_text":
     "exhaustive product enumeration of a bounded input alphabet, real code vs reference model, 16 forked workers",
     "serves_properties": ["C02", "C03", "C06", "C08", "C14", "C19", "C20"]},
    {"name": "E2-history-bfs", "path": "mc/harness.py", "kind_free_text":
     "explicit-state breadth-first search over operation histories; states rebuilt by replay on the real objects, canonicalised and de-duplicated",
     "serves_properties": ["C01", "C05", "C07", "C09", "C10", "C12", "C13", "C17"]},
    {"name": "E3-fault-subsets", "path": "mc/faultfs.py", "kind_free_text":
     "every subset of uploads fails / every abort point, every directory order, invariant after every event",
     "serves_properties": ["C04", "C11", "C12", "C18"]},
    {"name": "E4-crash-points", "path": "mc/crash.py", "kind_free_text":
     "one forked child per file-system-mutating event (sys.addaudithook), killed there; audit + re-run",
     "serves_properties": ["C15", "C04"]},
    {"name": "E5-schedules", "path": "mc/sched.py", "kind_free_text":
     "cooperative scheduler at file-system-operation boundaries, CHESS iterative preemption bounding, threads and processes",
     "serves_properties": ["C16", "C03"]},
]

NOT_APPLICABLE = {}

CHECKS = {}


def reg(pid, engine, technique, text, note, design_ref):
    CHECKS[pid] = dict(engine=engine, technique=technique, text=text, note=note,
                       design_ref=design_ref)


reg("C06", "E1-product",
    "exhaustive enumeration of store contents x used sets x modes on the real gc, vs set-difference model",
    "Every subset of a 6(7)-object universe (two/three directory objects sharing files) as store content, "
    "every subset of a 6(8)-element used universe (incl. absent ids and ids of another algorithm), shallow/"
    "expanding, dry/real, cache_odb or self, both store classes, read-only refusal: ~5*10^4 (quick) real gc "
    "runs, each compared with the independently computed set difference. Bounded-exhaustive, not sampled.",
    "Store contents are written directly to disk (inputs). Universe limited to 3 directory objects / 4 files.",
    "DESIGN.md §4 C06")

reg("C19", "E1-product",
    "exhaustive enumeration of (ancestor, ours, theirs) triples x policies on the real _merge/merge, vs per-key three-way rule",
    "All 3^9 (quick) / 3^12 (thorough) assignments of {absent,v1,v2} to 3/4 keys (one/two nested) for the three "
    "sides, 8 allowed-operation policies, both argument orders, on the real _merge; plus the public merge() on "
    "listings stored in both store classes for all triples over 2 keys (incl. no ancestor). Oracle: result == "
    "per-key three-way rule or MergeError; any other exception, a silently resolved conflict, order dependence, "
    "mutated inputs, non-canonical merged id, or a default-policy merge of non-add changes is a violation.",
    "MergeError is always acceptable. Values differ only in hash. Universe: <=4 keys, 2 values.",
    "DESIGN.md §4 C19")

reg("C08", "E1-product",
    "exhaustive enumeration of all ordered pairs of well-formed indexes x option combinations on the real index diff, vs flat reference diff",
    "All ordered pairs (plus None on either side) of the ~150 (quick) / ~10^3 (thorough) distinct well-formed "
    "indexes over keys {a, a/x, a/y, b (, a/x/z)} with entry variants {file h1/h2, no hash, no metadata, exec, "
    "legacy-named hash, implicit / explicit / hashed directory} x 20 option combinations: ~5*10^5 (quick) real "
    "diffs compared as multisets with a flat per-key reference; rename mode checked for key conservation, equal "
    "hashes and per-hash count == min(#deleted, #added).",
    "Well-formedness as the property assumes (content-derived directory hashes). Entries with neither hash nor "
    "metadata excluded. roots=/with_unknown=/meta_cmp_key= not varied.",
    "DESIGN.md §4 C08")

reg("C14", "E1-product",
    "exhaustive enumeration of byte strings x read-size compositions x algorithm names on the real hashing streams, vs hashlib/blake3",
    "Every byte string over {a,CR,LF,NUL,0xff} of length <= 6 (quick) / 7 (thorough) x every composition of read "
    "sizes on the md5 stream, 11 algorithm names incl. case variants and blake3, 8 chunk sizes x 3 algorithms on "
    "the chunked driver, the legacy dos2unix stream with 3 read sizes, CRLF/LF twins; structured strings around "
    "the 512-byte sniffing window and the 30 % ratio; file-level entry points on local and memory file systems "
    "incl. files around the 1 MiB read size: ~1.3*10^6 (quick) stream executions, each compared with the "
    "reference digest of the whole content, the returned bytes and the byte count.",
    "Alphabet of 5 byte values; twins claimed only when an independent heuristic classifies both as text; "
    "dos2unix digest only for content that fits in one read; shake_* excluded (no fixed digest length).",
    "DESIGN.md §4 C14")

reg("C20", "E1-product",
    "exhaustive product of optional fields through every serialised form, plus all short set/overwrite/delete/commit/reopen sequences on the SQLite-backed index vs a dict model",
    "Full product of the 11 metadata fields (5184 combinations incl. zero sizes and false-y strings) x 6 hash "
    "variants x 3 loaded flags through dict round trips; covering (thorough: all pairs of) field variants in "
    "3-entry indexes with non-ASCII / nested keys through write_json/read_json, write_db/read_db and the "
    "SQLite-backed index incl. the root key (commit, close, reopen); every sequence of length 3 (thorough 4) "
    "over {set k e, delete k, commit, commit+close+reopen} on 3 keys against a dict model (exercises the "
    "identity cache in front of the JSON values); listings with metadata for 4 hash names via from_list and "
    "Tree.load from both store classes. Oracle: independent projection to the serialised fields is unchanged.",
    "Meta() == no metadata under the projection (by design). Keys of the textual forms are non-empty and "
    "'/'-free as the property states. SQLite rollback is outside the claimed round trip.",
    "DESIGN.md §4 C20")

reg("C03", "E1-product",
    "exhaustive enumeration of entry sets x insertion permutations x metadata, and of file creation orders x job counts x every completion permutation of the hashing pool x hash-state warmth, vs an independent canonical encoder",
    "Pure part: every entry set of <= 3 (thorough 5) paths over a nested, non-ASCII path universe x 2 hashes x "
    "every insertion permutation x 5 metadata decorations: bytes and identifier equal the hand-written "
    "canonical encoder's, no two sets share bytes, from_list(as_list) is the identity (with and without "
    "metadata), get_obj/filter for every prefix equal the directly built sub-tree. File-system part: 3 trees "
    "(incl. >= 2 files of 2^20+1 bytes in one directory so the pool is reached, duplicate contents, empty "
    "file) in rotated/reversed (thorough: all) creation orders x jobs {1,2,4} x every completion permutation "
    "of the pool (permuting executor) x state {none,cold,warm,touched}; _get_hashes with a 1-byte threshold; "
    "sub-directory object == build() of the sub-directory; free-running real pool as a cross-check.",
    "Pool tasks are independent (state=None, disjoint files): completion permutations cover all pool schedules. "
    "Key parts contain no '/'.",
    "DESIGN.md §4 C03")

reg("C04", "E3-fault-subsets",
    "exhaustive enumeration of upload-failure subsets x directory orders x abort points on the real transfer, closure invariant after every upload event",
    "6 (thorough 7) tree sets (single, disjoint, sharing a file, nested subset, one file under two paths, three "
    "pairwise-sharing) x both destination classes x with/without remote index x closed/expanded request x empty/"
    "partially filled destination x every permutation of the directory processing order (order seam) x every "
    "subset of failing uploads (2^n, n <= 7) and an abort at every upload event; plus sources that miss a listed "
    "file. After every upload event and at the end: every directory object in the destination has all files of "
    "its true listing; withheld directories are reported failed; a fault-free retry with the same index "
    "completes the destination. ~10^4 executions (quick).",
    "Upload failure = OSError before anything is written; abort = BaseException at an upload event (kill at "
    "system-call granularity is C15's S3 scenario). Source store local. <= 3 directories per request.",
    "DESIGN.md §4 C04")

reg("C11", "E3-fault-subsets",
    "exhaustive enumeration of request shapes x source/destination contents x upload-failure subsets x corrupt sources under verify; TransferResult vs re-hashed destination listing",
    "3 (thorough 6) tree sets x {files, shallow dir, closed, expanded} x source {complete, file missing, dir "
    "object missing} x destination {empty, partial, complete} x both destination classes x every subset of "
    "failing uploads; under verify every subset of corrupt source files. Oracle: transferred and failed are "
    "disjoint and partition the objects new to the destination; transferred => present with right bytes; "
    "absent => failed or missing on both sides; present-before => neither reported nor re-sent; source byte "
    "snapshot unchanged; verify leaves no mismatching object.",
    "Corrupt sources only under verify (as the property quantifies). Upload failure = OSError before writing.",
    "DESIGN.md §4 C11")

reg("C12", "E2-history-bfs",
    "exhaustive enumeration of store contents x queries for status/compare_status, and explicit-state BFS over transfer/delete/status histories sharing one remote index, invariant after every operation",
    "(a) every subset of {x,y,z,T1.dir,T2.dir} as store content x {0,8,12} '00'-prefixed fillers (both lookup "
    "strategies of the base store are observed to run) x every non-empty query incl. an absent id x "
    "shallow/expanded, both store classes: partition == set membership; compare_status against every source "
    "content of <= 2 objects == combination of the two answers. (b) BFS to depth 3 (thorough 4) over 38 "
    "operations (closed/expanded transfers in both directory orders with no / any single failing upload, "
    "external deletion of each object, 3 status queries) sharing one ObjectDBIndex, with canonical-state "
    "de-duplication: after every operation a directory reported existing is in the store, the indexed status "
    "is a partition, and every id in the index was delivered in this history or is listed by a directory "
    "object present now.",
    "Local-file-system stores only (memory stores are assumed complete by design). Histories start from an empty "
    "destination and index. Two trees sharing one file.",
    "DESIGN.md §4 C12")

reg("C01", "E2-history-bfs",
    "explicit-state BFS over operation histories on the real stores; every object of every store re-hashed independently after every step",
    "BFS to depth 3 (thorough 4) over 34 operations (stage+transfer, stage-with-upload+transfer, index build/"
    "md5/save, single-file add, closed store-to-store transfer, migrate legacy md5-dos2unix -> md5, expanding "
    "gc, and 'user left all objects writable') over LocalHashFileDB(md5), HashFileDB(md5) and "
    "LocalHashFileDB(md5-dos2unix) and 3 trees (duplicate contents, empty file, non-ASCII / spaced names, "
    "CRLF text, binary), with and without one shared State; canonical-state de-duplication from depth 2. "
    "After every step: every non-temp file sits at <2>/<rest>, file objects hash (per the store's algorithm) "
    "to their name, directory objects are the canonical encoding of their own listing and md5(bytes)+'.dir' "
    "is their name, objects (re-)added to a local store are 0o444, memfs staging trees match their name, "
    "migration gives every source object a destination twin named by the destination digest.",
    "Temp names (*.tmp) are not objects. Trees <= 3 files; depth <= 4.",
    "DESIGN.md §4 C01")

reg("C02", "E1-product",
    "exhaustive enumeration of trees x store class x round-trip path x link type x state on the real stage/transfer/checkout and index build/save/compare/apply code; output compared byte for byte",
    "Every set of <= 2 (thorough 3) files over a nested non-ASCII path universe x contents {empty, x, CRLF text, "
    "binary}, hand-picked trees (space / '.dir' names, duplicates, all-empty, 5 files) and 6 single files, each "
    "x {LocalHashFileDB, HashFileDB} x {object-level build/transfer/checkout, index-level build/md5/save/"
    "compare/apply, a lazily loaded directory entry} x {copy, hardlink, symlink, default} x state on/off: "
    "~9*10^3 (quick) round trips. Oracle: walked output {relpath: bytes} == generated source; reloaded "
    "listing == reference listing; identifier == reference; nfiles/size == data; untracked empty source "
    "directories never appear through the object-level path.",
    "md5 only (legacy algorithm merges CRLF/LF twins by design). No successful reflink on this kernel.",
    "DESIGN.md §4 C02")

reg("C13", "E2-history-bfs",
    "exhaustive enumeration of mutation/query histories on real files and a real State database, every answer vs cache-less recomputation",
    "Every history of length 3 (thorough 4) over 24 operations on 2 files (write same-size / other-size content, "
    "atomic replace, touch, delete; state.get with and without caller info, get_many, hash_file, state.save, dry "
    "staging build, index build+md5, index update from the previous index) from a cold and a warm initial state "
    "under a strictly increasing 1-microsecond logical clock: ~2.8*10^4 (quick) histories; every hash answered "
    "equals hashlib on the current bytes, single == batch. Batch lookups of {1,2,998,999,1000,1001,1999} paths in "
    "both orders with entries invalidated at the SQL chunk edges; forged entries (other algorithm, newer format "
    "version, non-local file system, corrupt row) are never hits.",
    "Histories never restore an old (inode, mtime, size) with new content (excluded by the property). A miss is "
    "always acceptable.",
    "DESIGN.md §4 C13")

reg("C09", "E2-history-bfs",
    "exhaustive enumeration of (prior workspace, target index) pairs x target form x delete x link type on the real build/md5/compare/apply, workspace walk and second compare",
    "Every pair of 85 prior workspaces x 172 targets (quick; thorough 217 x 217) over paths {a, a/z, d, d/x, d/s, "
    "d/s/y} - file<->directory kind changes at depth 1 and 2, two contents, exec bit - x target given as explicit "
    "entries or as lazily loaded directory objects x delete on/off x link type {copy (all), hardlink, symlink}: "
    "~10^5 (quick) real checkouts. With delete: workspace files == target files with target bytes, target "
    "directories exist, no other directory survives, executable entries are executable, no error callback, and a "
    "second compare has empty create/delete lists. Without delete: files that are not in the way of the target "
    "survive. Targets with an unavailable source object: the entry reaches the error callback.",
    "Old side of compare carries hashes (build+md5). chmod list of the second compare only counted. User "
    "mutations happen between, not during, library calls.",
    "DESIGN.md §4 C09")

reg("C10", "E2-history-bfs",
    "exhaustive enumeration of (existing link type, user mutation, target, configured link type, store class, state, second workspace) on the real checkout sequence force / repeat / relink",
    "Prior workspace = real checkout of tree A or B with existing link type {copy, hardlink, symlink} + one of 6 "
    "kind-preserving user mutations; target A or B under configured type {copy, hardlink, symlink, default} x both "
    "store classes x state on/off x a second workspace {none, hardlinked, symlinked} to the same cache: 3456 "
    "sequences of forced checkout, repeated checkout, relinking checkout. Oracle: exact files and bytes; the "
    "repeat returns falsy and leaves every lstat unchanged; after relink every file is an independent copy / "
    "shares the cache inode (or is a plain empty file) / is a symlink to the cache path; cache bytes unchanged "
    "and still 0o444; saved link record == (inode, fresh get_mtime_and_size token).",
    "Tree A holds duplicate and empty contents. No successful reflink on this file system.",
    "DESIGN.md §4 C10")

reg("C05", "E2-history-bfs",
    "exhaustive enumeration of user mutation vectors x targets x configurations on the real unforced checkout, byte-string accounting against the cache; exhaustive link record/modify/clean-up histories",
    "Tree A checked out, then every mutation vector over 2 (thorough 3) paths x {untouched, deleted, edited to "
    "cached content, edited to uncached content, re-typed copy} (+ untracked file) x 6 targets (same, other, "
    "subset, disjoint, directory->file, file->directory) x both store classes x 3 link types x relink x prompt "
    "{absent, declining} x state on/off with force off: ~1.2*10^4 (quick) checkouts; every byte string lost from "
    "the workspace is intact in the cache, every file with uncached content is untouched, a PromptError names "
    "an untouched path, cache bytes unchanged. Link clean-up: all ~1.4*10^4 histories of length 4 over 12 "
    "operations (record, modify, touch, replace, remove, edit/add/rename inside a tracked directory, clean-up "
    "with each used list): clean-up removes only recorded, unused, unmodified paths.",
    "User mutations happen between library calls. Which error is raised on a refused kind change is not claimed.",
    "DESIGN.md §4 C05")

reg("C07", "E2-history-bfs",
    "exhaustive enumeration of tamper/query sequences on real stores with a 3-state (intact/corrupt/absent) reference model",
    "Every sequence of length 3 over 5 tamper patterns (truncate, append, rewrite same / other length, replace by "
    "rename, each made not write-protected, mtime from a logical clock) and 7 queries (check, oids_exist with 1 "
    "and 2 ids, hashfile.check(tree), checkout, add(verify) from a good / corrupt source) on a file object and on "
    "a directory object x state {none, cold, warm = entry from before the tampering} x both store classes: "
    "~1.9*10^4 sequences. Model says per query: corrupt => rejected and deleted, never materialised; intact => "
    "accepted, bytes unchanged, local object 0o444 afterwards; verify never retains a mismatching object; "
    "bystander objects untouched.",
    "Tampering never restores (inode, mtime, size) and (claimed part) never keeps 0o444 - both excluded by the "
    "property. Base-class oids_exist is not an integrity check. Checkout of an already loaded listing does not "
    "need the stored directory object.",
    "DESIGN.md §4 C07")

reg("C17", "E2-history-bfs",
    "exhaustive enumeration of access-operation sequences on a lazily loading index vs a reference-built explicit twin, both backends",
    "Index with files, an explicit directory and unloaded directory objects at depth 1 and 2 vs its explicit twin "
    "built by the reference model; every sequence of length <= 2 over 112 queries (quick; thorough adds every "
    "(t1, t2, q) with t1, t2 from 20 load-triggering queries): get, info, ls, iteritems deep/shallow, hash-only "
    "diff against the twin in both orders, view iteration / ls under 7 prefix-closed filters, fs adaptor "
    "ls/info/find/cat, load twice - on the pygtrie and the SQLite backend: ~2.7*10^4 sequences. Each answer on "
    "the lazy index == the twin's, whatever loading earlier queries triggered; view iteration == {k | filter(k)}; "
    "fs adaptor bytes == generated contents; diff against the twin is empty.",
    "Raw-trie views (__iter__, len, has_node, longest_prefix) are not claimed; loaded flag not compared.",
    "DESIGN.md §4 C17")

reg("C18", "E3-fault-subsets",
    "exhaustive enumeration of storage-prefix placements x indexes on the real collect/push/fetch/checkout, plus every subset of failing uploads in the first push round",
    "All 324 placements of storage prefixes (), (d), (e,s) with remote in {none,R1,R2} and cache in {none,C1,C2} "
    "(root has both, roles fall back independently) x 3 indexes (top-level files, directory objects at depth 1 "
    "and 2, a content shared by a file and a directory): collect+push, then fetch into empty caches and index "
    "checkout. Oracle: the remote designated by longest prefix holds every object reachable from each entry; "
    "pushed == objects that arrived; the fresh caches together hold exactly the reachable set with right bytes, "
    "each entry's objects in its designated cache; checkout reproduces the data. For 12 (thorough 48) placements "
    "every subset of objects fails to upload in the first round: failures reported, remote closed, clean retry "
    "completes. Two structural defects of collect() are recorded as known findings.",
    "Remotes are base-class stores on the local file system (fault injection); R1 with remote index, R2 without. "
    "Over-push to an additional remote is allowed.",
    "DESIGN.md §4 C18")

reg("C15", "E4-crash-points",
    "exhaustive crash-point enumeration: one forked child per file-system-mutating event (audit hook) and per half-written copy of the real operation, audit, re-run, comparison with the uninterrupted run",
    "4 scenarios (stage+transfer into a local store with state; index build/md5/save of nested directories; closed "
    "store-to-store transfer with a remote index; upload staging) x 2 (thorough 3) trees x initial store "
    "{empty, half populated} x which object is first in an add batch x privilege {as invoked, CAP_DAC_OVERRIDE/"
    "FOWNER dropped}: ~1.6*10^3 (quick) kill points, each = after event n-1 / mid-copy. At the kill point: no "
    "mismatching object is 0o444 or vouched for by a valid state row, every directory object present has its "
    "files, workspace rows tell the truth. After re-running: the non-temp store contents equal the uninterrupted "
    "run's byte for byte and every object matches its name. The link-probe truncation (F5) is recorded as a known "
    "finding (4 signatures).",
    "Crash = process kill at Python-visible file-system calls; SQLite atomicity trusted; no power-loss model "
    "(dvc-data never fsyncs). Temp names tolerated. A valid object left writable after the re-run is only counted.",
    "DESIGN.md §4 C15")

reg("C16", "E5-schedules",
    "stateless model checking of the real writers under a cooperative scheduler: iterative preemption-bounded (CHESS) exploration of all schedules at file-system-operation boundaries, threads and processes",
    "2 writers (and one 3-writer workload) running the real build + transfer of identical / overlapping / "
    "same-content-under-two-paths trees into one LocalHashFileDB with one shared State database, as real threads "
    "sharing the odb and State objects and as forked processes sharing only the disk, x which object is first in "
    "an add batch x privilege {as invoked, CAP_DAC_OVERRIDE/FOWNER dropped}. Scheduling points: every audit-hook "
    "file-system event on the shared store/state directories and the store's stat helper (~57 per 2-writer run). "
    "Every schedule with <= 2 preemptions (deep config) / <= 1 (others; thorough: 3 / 2) is executed: ~5.6*10^3 "
    "(quick) schedules; each replays deterministically. Oracle: no writer raises or reports failures, every "
    "requested object present with right bytes, every object matches its name, valid state rows are truthful, "
    "exactly one final outcome per configuration. F6 (capabilities dropped) is a known finding (3 signatures).",
    "Exactly one writer runs between scheduling points; races inside C extensions (sqlite, hashlib) and on "
    "in-memory structures between points are not modelled. Private workspace events are not points.",
    "DESIGN.md §4 C16")


# Coverage added after the registrations above were written (section 4 "As built" of DESIGN.md has the detail).
ADDENDA = {
    "C01": "Part 2, every history (no de-duplication): depth 4 over {stage only, stage+transfer} x 2 stores and "
           "{rename, rewrite} of workspace files with duplicate content; depth 3 over {stage+transfer, damage a "
           "protected object in place, verifying transfer, rewrite}.",
    "C02": "Every execution is followed by a second round trip from the same store; with link type copy also "
           "after an earlier never-transferred staging whose first file was then moved aside and rewritten.",
    "C03": "Hash-state modes include all-but-the-first / all-but-the-last file known.",
    "C04": "Expanded requests with files missing on both sides / corrupt; ENOENT upload failures.",
    "C05": "With a State also atomic same-size same-mtime replacements; in-flight part: a file the checkout "
           "leaves alone is replaced by uncached bytes before each file-system access of the call, then unused "
           "links are cleaned up.",
    "C06": "Twin-algorithm ids (same value) listed before the store's own, a legacy-algorithm local store, "
           "names differing only in Unicode normalisation form.",
    "C07": "9 queries (verified adds also with check_exists=False); a two-chunk CRLF text object of a legacy store.",
    "C08": "Entry variants include an inode-only metadata difference and explicit directories with an empty HashInfo.",
    "C09": "Unloadable-directory runs with the default raising and with a collecting load-error handler: same outcome.",
    "C10": "A further relinking checkout to each third link type.",
    "C11": "Requested ids carry obj_name labels; ENOENT upload failures.",
    "C12": "Histories also start from a source that lacks a listed file (missing on both sides).",
    "C13": "31 operations (previous index through write_json/read_json, write_db/read_db), three initial states "
           "(one with a symlink inside the staged directory).",
    "C14": "hash_value polled before and between reads.",
    "C15": "7 scenarios (+ verifying transfer with a corrupt source, index save across two file systems, verifying "
           "index save); 8 known link-probe signatures.",
    "C16": "Passes: base, upload staging, hashing pool with chosen completion order, SQL statements as points, "
           "private-workspace events as points, and a data-read pass (preemption right after every read of a "
           "workspace file).",
    "C17": "A directory object with per-file sizes and an empty file; persist trigger (deep load, commit, reopen, "
           "directory objects removed from storage).",
    "C18": "Single upload failures also as FileNotFoundError.",
    "C19": "Public merges run as one session per store (merge must not depend on earlier merges).",
}
ADDENDA2 = {
    "C01": "Migration into the legacy algorithm.",
    "C02": "Index paths with an explicit FileStorage prefix and with update() after a same-second in-place rewrite.",
    "C03": "Upload-staging builds.",
    "C04": "Legacy-algorithm stores; a 1300-file directory (selected failure sets / abort points).",
    "C05": "Trailing-separator spellings (workspace, State root), read-only cache.",
    "C06": "sha256 store kind, store-path spellings, 1300 extra unused objects.",
    "C07": "Existence query of 1301 ids; verifying transfer of a directory member from a corrupt generic source.",
    "C08": "roots= option; lazily loaded directories seen through views (hash_only).",
    "C09": "Second cache on another file system, dangling workspace links, build_entries() with a >2 MiB file.",
    "C10": "Trailing separator, ignore= filter, 1300-file directory.",
    "C11": "Hard-link adds under verify; index-level fetch from a verifying remote.",
    "C12": "1030-directory index with a vanished member, stateful local store, get_index() sharing a tmp_dir.",
    "C13": "sha256 requests / sha256 store on the same state; two files above 1 MiB.",
    "C14": "Ordered pairs of algorithms through one State.",
    "C15": "10 scenarios (+ truncated remote directory object under verify, two caches, 1300-object transfer with structural kill points); 12 known link-probe signatures.",
    "C16": "Trailing-separator workspaces; 1001-file writers without preemption.",
    "C18": "1300-file directory, persistent cache_index reused by the retry, local-directory remote with a leftover.",
    "C19": "Stores of sha256 / sha1 / legacy algorithm; merge of 20000-entry listings.",
    "C20": "JSON rewritten over a longer file; 2500-entry index through the stored forms.",
}
ADDENDA3 = {
    # waves 8 and 10: error / clean-up / recovery paths and state that outlives one call
    "C02": "Index saved twice around a rewritten file (same index object); round trip into a wiped location in the same process.",
    "C03": "Builds of one directory under md5 and the legacy algorithm sharing one hash-state.",
    "C05": "Refused removal of the corrupt cache object then the same call again; clean-up right after a refusal; file-to-file target; entries that cannot be examined (ELOOP).",
    "C06": "Sessions: two gc calls of one process on one store (same / fresh / get_odb handle, other configuration, external changes in between).",
    "C07": "Fault part: removal refused during one query and permitted for the next (9 x 9), uploads that write half of the bytes in place and fail.",
    "C08": "Both sides SQLite-backed (one rebuilt in-session by deletes and overwrites, one reopened).",
    "C09": "Targets of file entries only; unavailable sources under every link type; directory objects damaged in four more ways, retry on the same index object; a file unknown to the workspace index in a directory that is to go.",
    "C10": "Recovery part: refused workspace removals, a target object missing then restored (workspace kept / wiped), a cache that refuses chmod.",
    "C11": "Destination with a hash-state database under verify.",
    "C12": "ENOENT upload faults; process kills on entering the k-th index transaction (operations and a fourth initial state).",
    "C13": "Batch lookups with a kept, never filled mapping of known stat results.",
    "C14": "Independent and interleaved streams of one algorithm (incl. blake3); CR LF texts in the state algorithm pairs.",
    "C15": "Source store holding a half-written unprotected leftover (file missing on both sides).",
    "C17": "Further storage prefixes registered after the root.",
    "C18": "Failed fetch round from a verifying remote with damaged objects, then repair and retry.",
    "C19": "Ours derived from the loaded ancestor object; merge result stored after further merges.",
    "C20": "Two SQLite-backed indexes of one process holding the same keys; key-value database written twice; lookups of absent keys.",
}
for _pid, _t in ADDENDA3.items():
    ADDENDA2[_pid] = (ADDENDA2.get(_pid, "") + " " + _t).strip()
for _pid, _t in ADDENDA2.items():
    ADDENDA[_pid] = ADDENDA.get(_pid, "") + " " + _t
for _pid, _t in ADDENDA.items():
    CHECKS[_pid]["text"] = CHECKS[_pid]["text"] + " Added later: " + _t
