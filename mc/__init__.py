"""Bounded exhaustive model checking of iterative/dvc-data (see /verif/DESIGN.md).

Importing this package pins the interpreter to the working tree under
$DVC_DATA_SRC (default /repo/src) and silences progress bars / logging, before
any dvc_data module is imported.
"""

import os
import sys

SRC = os.environ.get("DVC_DATA_SRC", "/repo/src")
os.environ.setdefault("TQDM_DISABLE", "1")
os.environ.setdefault("PYTHONDONTWRITEBYTECODE", "1")
sys.dont_write_bytecode = True
if sys.path[0] != SRC:
    sys.path.insert(0, SRC)

VERIF = os.path.dirname(os.path.dirname(os.path.abspath(__file__)))
GUARD = "DVC_DATA_VERIF"
os.environ.setdefault(GUARD, "1")


def assert_tree():
    import dvc_data

    here = os.path.realpath(os.path.dirname(dvc_data.__file__))
    want = os.path.realpath(os.path.join(SRC, "dvc_data"))
    if here != want:
        raise SystemExit(f"HARNESS-ERROR dvc_data imported from {here}, expected {want}")
