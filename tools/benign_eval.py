#!/usr/bin/env python3
"""Evaluate a property-PRESERVING change: the checks must stay silent on it.

usage: tools/benign_eval.py <name> <patch.diff> <demo.py> <meta.json> [--checks C01,C02|auto|all]

On a scratch copy of /repo (never /repo itself): the patch applies, the repository's suite passes,
the author's demonstration passes with and without the patch; then the quick tier of the selected
checks runs against the patched copy and every one of them has to exit 0 with no VIOLATION line.
`auto` = the check of the change's own property plus every check whose property is anchored in one
of the patched files.  The result is kept under /verif/benign/<name>/ (patch.diff, demo.py, meta.json).
"""

import json
import os
import re
import shutil
import subprocess
import sys
import tempfile

PY = "/venv/bin/python"
VERIF = os.path.dirname(os.path.dirname(os.path.abspath(__file__)))


def anchors():
    out = {}
    for line in open(os.path.join(VERIF, "properties.jsonl")):
        d = json.loads(line)
        out[d["id"]] = set(d["anchors"]["files"])
    return out


def main():
    args = sys.argv[1:]
    name, patch, demo, meta = args[:4]
    sel = "auto"
    if "--checks" in args:
        sel = args[args.index("--checks") + 1]
    m = json.load(open(meta))
    files = set(re.findall(r"^\+\+\+ b/(\S+)", open(patch).read(), re.M))
    anc = anchors()
    if sel == "all":
        checks = sorted(anc)
    elif sel == "auto":
        checks = sorted({m["property"]} | {p for p, fs in anc.items() if fs & files})
    else:
        checks = sel.split(",")
    d = tempfile.mkdtemp(prefix="ben.", dir="/dev/shm")
    res = {"checks": {}}
    try:
        subprocess.check_call(["rsync", "-a", "--exclude", ".git", "--exclude", "__pycache__", "/repo/", d + "/repo/"])
        env = dict(os.environ, PYTHONPATH=d + "/repo/src", PYTHONDONTWRITEBYTECODE="1")
        r0 = subprocess.run([PY, demo], env=env, capture_output=True, text=True, timeout=1200)
        res["demo_without"] = r0.returncode
        r = subprocess.run(["patch", "-p1", "-s", "-d", d + "/repo", "-i", os.path.abspath(patch)])
        res["applies"] = r.returncode == 0
        if res["applies"]:
            r = subprocess.run([PY, "-m", "pytest", "-q", "-p", "no:cacheprovider", "--timeout=900",
                                "--continue-on-collection-errors"], cwd=d + "/repo", env=env,
                               capture_output=True, text=True)
            res["suite"] = (r.stdout.strip().splitlines() or [""])[-1]
            r1 = subprocess.run([PY, demo], env=env, capture_output=True, text=True, timeout=1200)
            res["demo_with"] = r1.returncode
            env2 = dict(os.environ, DVC_DATA_SRC=d + "/repo/src", MC_EVIDENCE_DIR=d + "/evidence",
                        MC_REPLAY_DIR=d + "/replays", PYTHONDONTWRITEBYTECODE="1")
            for pid in checks:
                r = subprocess.run([PY, "-m", "mc", "check", pid, "--tier", "quick"], cwd=VERIF, env=env2,
                                   capture_output=True, text=True)
                out = r.stdout.strip().splitlines()
                bad = [l.strip()[:400] for l in out if l.startswith(("VIOLATION", "HARNESS-ERROR"))
                       or l.strip().startswith(("signature=", "detail="))]
                res["checks"][pid] = {"rc": r.returncode, "lines": bad[:12], "summary": out[-1][:300] if out else ""}
    finally:
        shutil.rmtree(d, ignore_errors=True)
    ok = res.get("applies") and "164 passed" in res.get("suite", "") and res.get("demo_with") == 0 \
        and res.get("demo_without") == 0
    silent = all(v["rc"] == 0 for v in res["checks"].values())
    verdict = ("VALID " if ok else "INVALID ") + ("SILENT" if silent else "ALARM")
    print(f"{name}: applies={res.get('applies')} suite={res.get('suite')!r} demo_with={res.get('demo_with')} "
          f"demo_without={res.get('demo_without')} checks={ {k: v['rc'] for k, v in res['checks'].items()} } -> {verdict}")
    for k, v in res["checks"].items():
        if v["rc"] != 0:
            for l in v["lines"][:8]:
                print(f"   {k}: {l[:300]}")
    out = os.path.join(VERIF, "benign", name)
    os.makedirs(out, exist_ok=True)
    shutil.copy(patch, os.path.join(out, "patch.diff"))
    shutil.copy(demo, os.path.join(out, "demo.py"))
    m.update({"evaluation": res, "verdict": verdict})
    json.dump(m, open(os.path.join(out, "meta.json"), "w"), indent=1)
    return 0


if __name__ == "__main__":
    sys.exit(main())
