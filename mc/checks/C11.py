"""C11 a transfer's result tells the truth about what arrived.

E3: request shapes x source contents x destination contents x every subset of
failing uploads (x corrupt sources under verify); TransferResult compared with a
listing + re-hash of the destination and a byte snapshot of the source.
"""

from .. import ref
from ..world import World, digest_obj, objects_only, store_snapshot
from ..xfer import (
    LISTING,
    OID_BYTES,
    SCENARIOS,
    TREE_OID,
    Plan,
    XWorld,
    files_of_trees,
    name_of,
    subsets,
)
from ..lab import hi


def hi(oid):  # noqa: F811
    """Requested ids carry a display label, as dvc sets on the ids it pushes / fetches."""
    from dvc_data.hashfile.hash_info import HashInfo

    return HashInfo("md5", oid, obj_name=f"data/{name_of(oid)}")


def request_ids(trees, shape):
    files = files_of_trees(trees)
    dirs = [TREE_OID[t] for t in trees]
    if shape == "files":
        return {hi(o) for o in files}, True, set(files)
    if shape == "shallowdir":
        return {hi(o) for o in dirs}, True, set(dirs)
    if shape == "closed":
        return {hi(o) for o in files + dirs}, True, set(files + dirs)
    return {hi(o) for o in dirs}, False, set(files + dirs)  # expanded


def one_exec(cfg, fail, corrupt):
    trees = SCENARIOS[cfg["scenario"]]
    files = files_of_trees(trees)
    dirs = [TREE_OID[t] for t in trees]
    viol = []
    info = {"events": 0, "fired": 0, "resent": 0}
    src_missing = []
    if cfg["src"] == "file-missing":
        src_missing = [files[-1]]
    elif cfg["src"] == "dir-missing":
        src_missing = [dirs[0]]
    initial = {"empty": [], "partial": files[:1], "complete": files + dirs}[cfg["dest0"]]
    with World() as w:
        xw = XWorld(w, trees, dest_kind=cfg["dest"], dest_initial=initial, src_missing=src_missing,
                    verify=cfg["verify"], corrupt=corrupt, dest_state=cfg.get("dstate", False))
        try:
            ids, shallow, universe = request_ids(trees, cfg["shape"])
            src_before = store_snapshot(xw.src.path)
            dest_before = objects_only(store_snapshot(xw.dest.path))
            plan = Plan(fail_oids=fail, enoent=cfg.get("enoent", False))
            try:
                res = xw.transfer(ids, plan=plan, shallow=shallow, verify=cfg["verify"],
                                  **({"hardlink": True} if cfg.get("hardlink") else {}))
            except Exception as e:  # noqa: BLE001
                viol.append((f"transfer-raises-{type(e).__name__}", repr(e)))
                return viol, info
            info["events"] = len(plan.events)
            info["fired"] = plan.fired
            src_after = store_snapshot(xw.src.path)
            dest_after = objects_only(store_snapshot(xw.dest.path))
            tr = {h.value for h in res.transferred}
            fl = {h.value for h in res.failed}
            if src_after != src_before:
                viol.append(("source-store-modified", f"{sorted(map(str, set(src_after) ^ set(src_before)))}"))
            if tr & fl:
                viol.append(("transferred-and-failed-overlap", f"{[name_of(o) for o in tr & fl]}"))
            for o in sorted(tr):
                if o not in dest_after:
                    why = "other"
                    if o in dirs and set(LISTING[name_of(o)].values()) & set(src_missing):
                        why = "dir-skipped-because-files-missing-on-both-sides"
                    elif cfg["verify"] and (o in corrupt or (o in dirs and set(LISTING[name_of(o)].values()) & set(corrupt))):
                        why = "verify-removed-corrupt-object"
                    viol.append((f"reported-transferred-but-absent/{why}",
                                 f"{name_of(o)} cfg={cfg} fail={[name_of(f) for f in fail]} corrupt={[name_of(c) for c in corrupt]}"))
                elif dest_after[o][0] != OID_BYTES[o]:
                    viol.append(("reported-transferred-with-wrong-bytes", f"{name_of(o)} verify={cfg['verify']}"))
            src_has = {o for o in objects_only(src_before)}
            for o in sorted(universe):
                if o in dest_after:
                    continue
                if o in fl:
                    continue
                if o not in src_has and o not in dest_before:
                    continue  # missing from both sides
                if o in tr:
                    continue  # already reported above
                viol.append(("absent-object-neither-failed-nor-missing", f"{name_of(o)} cfg={cfg}"))
            for o in sorted(dest_before):
                if o in tr or o in fl:
                    viol.append(("already-present-object-reported", f"{name_of(o)}"))
            resent = [oid for _k, oid, _r in plan.events if oid in dest_before]
            if resent:
                info["resent"] = len(resent)
                viol.append(("already-present-object-re-sent", f"{[name_of(o) for o in resent]}"))
            # new = requested (expanded) and in source and not in destination
            new = {o for o in universe if o in src_has and o not in dest_before}
            if cfg["verify"] and corrupt:
                pass  # with corrupt sources the partition is checked through the clauses above
            elif (tr | fl) != new:
                lost = new - (tr | fl)
                extra = (tr | fl) - new
                viol.append(("result-is-not-a-partition-of-new-objects",
                             f"unreported={[name_of(o) for o in lost]} extra={[name_of(o) for o in extra]}"))
            # with verify, no mismatching object may remain
            if cfg["verify"]:
                for o, (data, _m) in dest_after.items():
                    if isinstance(data, bytes) and ref.md5(data) != o.split(".")[0]:
                        viol.append(("verify-left-mismatching-object", name_of(o)))
        finally:
            xw.close()
    return viol, info


# ---- multi-step histories with a destination index -------------------------------------------


def hist_exec(cfg):
    """push T1 (closed) with a destination index; objects vanish from the destination; then a second request."""
    import os

    trees = ["T1", "T2"]
    viol = []
    with World() as w:
        xw = XWorld(w, trees, dest_kind=cfg["dest"], use_index=True)
        try:
            xw.transfer(xw.request(["T1"]), plan=Plan())
            for o in cfg["deleted"]:
                p = xw.dest.oid_to_path(o)
                if os.path.exists(p):
                    os.chmod(p, 0o644)
                    os.unlink(p)
            files2 = files_of_trees(["T2"])
            req = {"T2-closed": {hi(TREE_OID["T2"])} | {hi(o) for o in files2},
                   "T2+T1-closed": {hi(TREE_OID["T2"]), hi(TREE_OID["T1"])} | {hi(o) for o in files_of_trees(trees)},
                   "files-of-T1": {hi(o) for o in files_of_trees(["T1"])}}[cfg["second"]]
            universe = {h.value for h in req}
            src_has = set(objects_only(store_snapshot(xw.src.path)))
            before = set(objects_only(store_snapshot(xw.dest.path)))
            plan = Plan(fail_oids=cfg["fail"])
            try:
                res = xw.transfer(req, plan=plan)
            except Exception as e:  # noqa: BLE001
                return [(f"second-transfer-raises-{type(e).__name__}", repr(e))]
            after = objects_only(store_snapshot(xw.dest.path))
            tr = {h.value for h in res.transferred}
            fl = {h.value for h in res.failed}
            for o in sorted(tr):
                if o not in after:
                    viol.append((f"stale-index/{cfg['second']}/reported-transferred-but-absent", name_of(o)))
            for o in sorted(universe):
                if o not in after and o not in fl and o in src_has:
                    viol.append((f"stale-index/{cfg['second']}/absent-object-neither-failed-nor-missing",
                                 f"{name_of(o)} after deleting {[name_of(d) for d in cfg['deleted']]} second={cfg['second']}"))
            for o in sorted(before & universe):
                if o in tr or o in fl:
                    viol.append((f"stale-index/{cfg['second']}/already-present-object-reported", name_of(o)))
        finally:
            xw.close()
    return viol


def hist_case(case):
    res = {"n": 0, "trans": 0, "states": [], "outcomes": set(), "nontrivial": set(), "viol": [],
           "vac": {"stale_index_histories": 0}}
    sigs = set()
    t1 = files_of_trees(["T1"]) + [TREE_OID["T1"]]
    for deleted in subsets(t1):
        if any(not o.endswith(".dir") for o in deleted) and TREE_OID["T1"] not in deleted:
            # the destination must stay closed: an index assumes (by design) that an existing directory
            # object has its files, so a file may only vanish together with the directory listing it
            continue
        for second in ("T2-closed", "T2+T1-closed", "files-of-T1"):
            for fail in ([], [files_of_trees(["T2"])[-1]]):
                cfg = {"dest": case["dest"], "deleted": list(deleted), "second": second, "fail": fail}
                viol = hist_exec(cfg)
                res["n"] += 1
                res["trans"] += 2
                res["vac"]["stale_index_histories"] += 1
                d = digest_obj(cfg)
                res["states"].append(d)
                if deleted:
                    res["nontrivial"].add(d)
                res["outcomes"].add(repr(sorted(v[0] for v in viol)))
                for sig, detail in viol:
                    if sig not in sigs:
                        sigs.add(sig)
                        res["viol"].append((sig, detail, dict(cfg, part="hist")))
    res["outcomes"] = sorted(res["outcomes"])
    res["nontrivial"] = sorted(res["nontrivial"])
    return res


def run_case(case):
    if case.get("part") == "hist":
        return hist_case(case)
    if case.get("part") == "fetch":
        return fetch_case(case)
    cfg = case["cfg"]
    trees = SCENARIOS[cfg["scenario"]]
    files = files_of_trees(trees)
    dirs = [TREE_OID[t] for t in trees]
    res = {"n": 0, "trans": 0, "states": [], "outcomes": set(), "nontrivial": set(), "viol": [],
           "vac": {"faults_fired": 0, "verify_corrupt_runs": 0, "both_sides_missing_runs": 0,
                   "already_present_runs": 0}}
    sigs = set()
    _ids, _sh, universe = request_ids(trees, cfg["shape"])
    cands = [o for o in files + dirs if o in universe]
    corrupt_sets = [()]
    if cfg["verify"]:
        corrupt_sets = list(subsets([f for f in files if f in universe or cfg["shape"] != "files"]))
    for corrupt in corrupt_sets:
        fails = list(subsets(cands)) if not corrupt else list(subsets(cands, 1))
        if cfg["scenario"] == "special":
            fails = list(subsets(cands, 1))
        for fail in fails:
            viol, info = one_exec(cfg, list(fail), list(corrupt))
            res["n"] += 1
            res["trans"] += info["events"] + 1
            res["vac"]["faults_fired"] += info["fired"]
            if corrupt:
                res["vac"]["verify_corrupt_runs"] += 1
                if cfg.get("dstate"):
                    res["vac"]["verify_corrupt_runs_with_state"] = res["vac"].get("verify_corrupt_runs_with_state", 0) + 1
            if cfg["src"] != "complete":
                res["vac"]["both_sides_missing_runs"] += 1
            if cfg["dest0"] != "empty":
                res["vac"]["already_present_runs"] += 1
            d = digest_obj((cfg, fail, corrupt))
            res["states"].append(d)
            if fail or corrupt or cfg["src"] != "complete":
                res["nontrivial"].add(d)
            res["outcomes"].add(repr((sorted(v[0] for v in viol), info["events"], info["fired"])))
            for sig, detail in viol:
                if sig not in sigs:
                    sigs.add(sig)
                    res["viol"].append((sig, detail, {"cfg": cfg, "fail": list(fail), "corrupt": list(corrupt)}))
    res["outcomes"] = sorted(res["outcomes"])[:50]
    res["nontrivial"] = sorted(res["nontrivial"])
    res["sample"] = {"cfg": cfg, "failure_subsets": 2 ** len(cands), "corrupt_sets": len(corrupt_sets)}
    return res


def replay(case):
    if case.get("part") == "hist":
        return hist_exec({k: v for k, v in case.items() if k != "part"})
    if case.get("part") == "fetch":
        v = fetch_exec({k: v for k, v in case.items() if k != "part"})[0]
        return [(f"fetch-level/{s_}", d_) for s_, d_ in v]
    return one_exec(case["cfg"], case["fail"], case["corrupt"])[0]


def configs(tier):
    scen = ["one", "sharing", "twopaths"]
    if tier == "thorough":
        scen += ["three", "subset", "disjoint"]
    for s in scen:
        for shape in ("files", "shallowdir", "closed", "expanded"):
            for src in ("complete", "file-missing", "dir-missing"):
                if src == "dir-missing" and shape == "expanded":
                    continue  # the directory object must be loadable to be expanded
                for dest0 in ("empty", "partial", "complete"):
                    for dest in ("base", "local"):
                        for verify in (False, True):
                            if verify and src != "complete":
                                continue
                            yield {"scenario": s, "shape": shape, "src": src, "dest0": dest0,
                                   "dest": dest, "verify": verify}
                            if verify and dest0 != "complete":
                                # the destination store keeps a hash-state database
                                yield {"scenario": s, "shape": shape, "src": src, "dest0": dest0,
                                       "dest": dest, "verify": verify, "dstate": True}


def configs_hardlink():
    # hard-linking adds (local source and destination on one file system) under verify
    for s in ("one", "sharing"):
        for shape in ("closed", "expanded"):
            yield {"scenario": s, "shape": shape, "src": "complete", "dest0": "empty", "dest": "local",
                   "verify": True, "hardlink": True}


def fetch_exec(cfg):
    """index-level fetch from a remote store configured to verify, into a cache that is not: what the remote
    cannot deliver intact (protected objects with wrong bytes) is counted failed and never reaches the cache."""
    import os

    from dvc_data.hashfile.hash_info import HashInfo
    from dvc_data.hashfile.meta import Meta
    from dvc_data.index import DataIndex, DataIndexEntry, ObjectStorage
    from dvc_data.index.collect import collect
    from dvc_data.index.fetch import fetch

    from ..lab import make_odb, put_raw

    trees = SCENARIOS[cfg["scenario"]]
    files = files_of_trees(trees)
    dirs = [TREE_OID[t] for t in trees]
    corrupt = set(cfg["corrupt"])
    viol = []
    with World() as w:
        remote = make_odb("base", w.p("remote"), verify=cfg["remote_verify"])
        cache = make_odb("local", w.p("cache"), verify=cfg["cache_verify"])
        for o in files + dirs:
            p_ = put_raw(remote, o, (b"CORRUPT:" if o in corrupt else b"") + OID_BYTES[o])
            os.chmod(p_, 0o444)
        idx = DataIndex()
        for t in trees:
            idx[(t,)] = DataIndexEntry(key=(t,), meta=Meta(isdir=True), hash_info=HashInfo("md5", TREE_OID[t]))
        idx.storage_map.add_cache(ObjectStorage((), cache))
        idx.storage_map.add_remote(ObjectStorage((), remote))
        try:
            fetched, failed = fetch(collect([idx], "remote"))
        except Exception as e:  # noqa: BLE001
            return [(f"fetch-raises-{type(e).__name__}", repr(e))], {}
        snap = objects_only(store_snapshot(cache.path))
        # (fetch verifies iff the *remote* is configured to: it passes that flag explicitly, which by design
        # overrides the cache's own setting)
        verify = cfg["remote_verify"]
        for o, (data, _m) in snap.items():
            if verify and isinstance(data, bytes) and ref.md5(data) != o.split(".")[0]:
                viol.append(("fetch-under-verify-left-mismatching-object", name_of(o)))
        arrived = len(snap)
        if fetched != arrived:
            viol.append(("fetched-count-differs-from-objects-in-cache", f"fetched={fetched} failed={failed} arrived={arrived} corrupt={[name_of(c) for c in corrupt]}"))
        if verify and corrupt and not failed:
            viol.append(("undeliverable-objects-but-no-failure-reported", f"fetched={fetched} corrupt={[name_of(c) for c in corrupt]}"))
        if not corrupt and (failed or arrived != len(files + dirs)):
            viol.append(("clean-fetch-incomplete", f"fetched={fetched} failed={failed} arrived={arrived}"))
    return viol, {"fetched": fetched, "failed": failed}


def fetch_case(case):
    res = {"n": 0, "trans": 0, "states": [], "outcomes": set(), "nontrivial": set(), "viol": [],
           "vac": {"fetch_level_runs": 0}}
    sigs = set()
    trees = SCENARIOS[case["scenario"]]
    files = files_of_trees(trees)
    for rv, cv in ((True, False), (False, True), (False, False), (True, True)):
        for corrupt in subsets(files):
            cfg = {"scenario": case["scenario"], "remote_verify": rv, "cache_verify": cv, "corrupt": list(corrupt)}
            viol, info = fetch_exec(cfg)
            res["n"] += 1
            res["trans"] += 2
            res["vac"]["fetch_level_runs"] += 1
            d = digest_obj(cfg)
            res["states"].append(d)
            if corrupt:
                res["nontrivial"].add(d)
            res["outcomes"].add(repr((sorted(v[0] for v in viol), info)))
            for sig, detail in viol:
                sig = f"fetch-level/{sig}"
                if sig not in sigs:
                    sigs.add(sig)
                    res["viol"].append((sig, detail, dict(cfg, part="fetch")))
    res["outcomes"] = sorted(res["outcomes"])
    res["nontrivial"] = sorted(res["nontrivial"])
    return res


def configs_special():
    # special file names; two objects sharing the fan-out prefix under verify with corrupt sources
    for shape in ("closed", "expanded"):
        for dest in ("base", "local"):
            yield {"scenario": "special", "shape": shape, "src": "complete", "dest0": "empty", "dest": dest, "verify": False}
            yield {"scenario": "oddkeys", "shape": shape, "src": "complete", "dest0": "empty", "dest": dest, "verify": False}
            yield {"scenario": "twins", "shape": shape, "src": "complete", "dest0": "empty", "dest": dest, "verify": True}
            yield {"scenario": "twins", "shape": shape, "src": "complete", "dest0": "partial", "dest": dest, "verify": True}


def configs_enoent():
    # uploads failing with FileNotFoundError although the source object exists
    for s in ("one", "sharing"):
        for shape in ("files", "shallowdir", "closed", "expanded"):
            for dest in ("base", "local"):
                yield {"scenario": s, "shape": shape, "src": "complete", "dest0": "empty", "dest": dest,
                       "verify": False, "enoent": True}


def run(ctx):
    ctx.rule = (
        "E3: tree sets x request shape {files, shallow dir, closed, expanded} x source {complete, a file "
        "missing, a directory object missing} x destination {empty, partial, complete} x both destination "
        "classes x every subset of failing uploads; under verify additionally every subset of corrupt source "
        "files (x <= 1 failing upload), the destination with and without a hash-state database; histories push T1 with a destination index -> every subset of its objects vanishes from the destination -> second request (T2 closed / T1+T2 closed / files of T1) with and without a failing upload; non-trivial = a fault, a corrupt source or an incomplete source"
    )
    ctx.bound = {"scenarios": ["one", "sharing", "twopaths"] + (["three", "subset", "disjoint"] if ctx.tier == "thorough" else []),
                 "max_objects": 6}
    ctx.assumptions = [
        "uploads fail before writing anything (OSError EIO)",
        "corrupt sources are protected (0o444) objects whose bytes do not match their name; they are only "
        "introduced under verify=True, as the property's quantifier says",
        "an expanded request needs its directory object to be loadable from the source",
    ]
    ctx.require("faults_fired", "verify_corrupt_runs", "both_sides_missing_runs", "already_present_runs",
                "stale_index_histories", "fetch_level_runs", "verify_corrupt_runs_with_state")
    cs = [{"cfg": c} for c in configs(ctx.tier)] + [{"cfg": c} for c in configs_enoent()]
    cs += [{"cfg": c} for c in configs_hardlink()]
    cs += [{"cfg": c} for c in configs_special()]
    cs += [{"part": "fetch", "scenario": s_} for s_ in ("one", "sharing")]
    cs += [{"part": "hist", "dest": d} for d in ("base", "local")]
    ctx.run_cases("run_case", cs, chunksize=1, det=4)
