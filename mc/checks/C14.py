"""C14 hashing is correct, chunking-independent and a faithful pass-through.

E1: all byte strings over {a, CR, LF, NUL, 0xff} up to a length bound x all
read-size compositions / chunk sizes / algorithm names on the real hashing
streams and drivers, vs hashlib / blake3 on the whole content.
"""

CASE_TIMEOUT = 30  # seconds per pool task (the unchanged tree needs a small fraction of this)

import io
import itertools

from .. import ref
from ..world import World, digest_obj

ALPHA = [b"a", b"\r", b"\n", b"\x00", b"\xff"]
PLAIN_ALGOS = ["md5", "sha1", "sha256", "blake3", "MD5", "Sha256", "BLAKE3", "sha512", "sha3_256",
               "blake2b", "sha224", "md5-sha1", "MD5-SHA1"]   # md5-sha1 shares the "md5-" prefix of the legacy name
CHUNKS = [1, 2, 3, 511, 512, 513, 2**20, -1]


class ShortReader(io.RawIOBase):
    """A source whose read(n) may return fewer than n bytes before EOF (pipe / socket / raw file)."""

    def __init__(self, data, pattern):
        self.data, self.pos, self.pattern, self.i = data, 0, pattern, 0

    def readable(self):
        return True

    def read(self, n=-1):
        k = self.pattern[self.i % len(self.pattern)]
        self.i += 1
        if n is None or n < 0:
            n = len(self.data)
        n = min(n, k)
        out = self.data[self.pos: self.pos + n]
        self.pos += len(out)
        return out


def compositions(n):
    if n == 0:
        yield ()
        return
    for bits in itertools.product((0, 1), repeat=n - 1):
        comp, cur = [], 1
        for b in bits:
            if b:
                comp.append(cur)
                cur = 1
            else:
                cur += 1
        comp.append(cur)
        yield tuple(comp)


def stream_run(cls_factory, data, sizes):
    """Read with the given sizes, then to EOF; returns (chunks, stream)."""
    st = cls_factory(io.BytesIO(data))
    chunks = []
    for n in sizes:
        chunks.append(st.read(n))
    while True:
        c = st.read(max(sizes[-1], 1) if sizes else 4)
        if not c:
            break
        chunks.append(c)
    return chunks, st


def check_string(s, full):
    from dvc_data.hashfile.hash import (
        HashStreamFile,
        fobj_md5,
        get_hash_stream,
    )

    viol = []
    n_ops = 0
    n = len(s)
    # (1) plain stream, every composition of read sizes (md5), + oversize / -1
    comps = list(compositions(n)) if full else [(n,)] if n else [()]
    comps += [(n + 3,), (-1,)]
    for comp in comps:
        chunks, st = stream_run(lambda f: HashStreamFile(f, "md5"), s, list(comp))
        n_ops += 1
        if b"".join(chunks) != s:
            viol.append(("stream-altered-bytes/md5", f"sizes={comp} data={s!r} got={chunks!r}"))
        if st.hash_value != ref.digest("md5", s):
            viol.append(("stream-wrong-digest/md5", f"sizes={comp} data={s!r}"))
        if st.total_read != n:
            viol.append(("stream-miscounts", f"total_read={st.total_read} len={n} sizes={comp}"))
    # (1b) hash_value is a pure observer: polling it before / between reads changes nothing, and for a plain
    # algorithm it is the digest of the bytes read so far
    for name, rds in (("md5", (1, 2)), ("sha256", (3,)), ("blake3", (2,)), ("md5-dos2unix", (512, 600))):
        for rd in rds:
            polled = get_hash_stream(io.BytesIO(s), name=name)
            quiet = get_hash_stream(io.BytesIO(s), name=name)
            seen = b""
            polled.hash_value  # noqa: B018
            while True:
                c = polled.read(rd)
                quiet.read(rd)
                if not c:
                    break
                seen += c
                hv = polled.hash_value
                if name != "md5-dos2unix" and hv != ref.digest(name, seen):
                    viol.append((f"intermediate-digest-wrong/{name}", f"after {len(seen)} of {s!r}"))
            n_ops += 1
            if polled.hash_value != quiet.hash_value:
                viol.append((f"polling-hash_value-changes-the-digest/{name}", f"read={rd} data={s!r}"))
    # (1c) streams are independent: a finished stream's digest is not disturbed by a later stream of the same
    # algorithm over other bytes, and two live streams read in turns each report their own content
    for name in ("md5", "sha256", "blake3"):
        a = get_hash_stream(io.BytesIO(s), name=name)
        while a.read(3):
            pass
        other = b"other-stream:" + s[::-1]
        b_ = get_hash_stream(io.BytesIO(other), name=name)
        b_.read(5)
        n_ops += 1
        if a.hash_value != ref.digest(name, s):
            viol.append((f"finished-stream-disturbed-by-a-later-stream/{name}", f"data={s!r}"))
        while b_.read(4):
            pass
        if b_.hash_value != ref.digest(name, other) or a.hash_value != ref.digest(name, s):
            viol.append((f"two-streams-of-one-algorithm-interfere/{name}", f"data={s!r}"))
    # (2) every algorithm name, one composition each
    for i, name in enumerate(PLAIN_ALGOS):
        comp = comps[i % len(comps)]
        chunks, st = stream_run(lambda f, name=name: HashStreamFile(f, name), s, list(comp))
        n_ops += 1
        if b"".join(chunks) != s:
            viol.append((f"stream-altered-bytes/{name.lower()}", f"sizes={comp} data={s!r}"))
        if st.hash_value != ref.digest(name, s):
            viol.append((f"stream-wrong-digest/{name.lower()}", f"sizes={comp} data={s!r}"))
        if st.total_read != n:
            viol.append(("stream-miscounts", f"{name} total_read={st.total_read} len={n}"))
    # (3) chunked driver
    for cs in CHUNKS:
        for name in ("md5", "sha256", "blake3"):
            n_ops += 1
            got = fobj_md5(io.BytesIO(s), chunk_size=cs, name=name)
            if got != ref.digest(name, s):
                viol.append((f"driver-wrong-digest/{name}", f"chunk={cs} data={s!r}"))
    # (3b) sources that return short reads
    for pattern in ((1,), (2,), (1, 3), (3, 1, 2)):
        for cs in (2, 3, 512, 2**20):
            n_ops += 1
            got = fobj_md5(ShortReader(s, pattern), chunk_size=cs, name="md5")
            if got != ref.digest("md5", s):
                viol.append(("driver-wrong-digest-on-short-reads/md5", f"chunk={cs} pattern={pattern} data={s!r}"))
        st = HashStreamFile(ShortReader(s, pattern), "sha256")
        parts = []
        while True:
            c = st.read(4)
            if not c:
                break
            parts.append(c)
        n_ops += 1
        if b"".join(parts) != s or st.hash_value != ref.digest("sha256", s) or st.total_read != n:
            viol.append(("stream-wrong-on-short-reads", f"pattern={pattern} data={s!r}"))
    # (4) legacy dos2unix stream: single read >= 512
    for rd in (512, 513, 2**20):
        st = get_hash_stream(io.BytesIO(s), name="md5-dos2unix")
        parts = []
        while True:
            c = st.read(rd)
            if not c:
                break
            parts.append(c)
        n_ops += 1
        if b"".join(parts) != s:
            viol.append(("dos2unix-altered-bytes", f"read={rd} data={s!r} got={parts!r}"))
        if len(s) > rd:
            continue  # digest claims are for content that fits in one read
        dg = st.hash_value
        if not ref.is_text(s):
            if dg != ref.md5(s):
                viol.append(("dos2unix-changed-binary", f"data={s!r}"))
        elif b"\r" not in s and dg != ref.md5(s):
            viol.append(("dos2unix-changed-crfree-text", f"data={s!r}"))
        elif dg != ref.md5(s.replace(b"\r\n", b"\n")):
            # text that fits in one read: exactly the CR LF pairs are folded (a lone CR stays)
            viol.append(("dos2unix-digest-is-not-md5-of-crlf-folded-text", f"data={s!r}"))
        d2 = fobj_md5(io.BytesIO(s), chunk_size=rd, name="md5-dos2unix")
        if d2 != dg:
            viol.append(("dos2unix-driver-differs-from-stream", f"data={s!r}"))
    # twins
    twin_checked = 0
    if b"\r" not in s and b"\n" in s:
        tw = s.replace(b"\n", b"\r\n")
        if ref.is_text(s) and ref.is_text(tw):
            a = fobj_md5(io.BytesIO(s), chunk_size=2**20, name="md5-dos2unix")
            b = fobj_md5(io.BytesIO(tw), chunk_size=2**20, name="md5-dos2unix")
            twin_checked = 1
            n_ops += 1
            if a != b:
                viol.append(("dos2unix-twins-differ", f"lf={s!r} crlf={tw!r}"))
    return viol, n_ops, twin_checked


def structured():
    out = []
    for L in (510, 511, 512, 513, 514, 1023, 1024, 1025):
        for k in (0, 255, L - 4, L - 3, L - 2, 509, 510, 511, 512):
            if 0 <= k <= L - 2:
                out.append(b"a" * k + b"\n" + b"b" * (L - k - 1))
                out.append(b"a" * k + b"\r\n" + b"b" * (L - k - 2))
    # 30 % non-text edge inside the 512-byte window and for short strings
    for L, ks in ((512, (152, 153, 154, 155)), (10, (2, 3, 4)), (100, (29, 30, 31)), (600, (153, 154, 180))):
        for k in ks:
            out.append(b"\xff" * k + b"a\n" * ((L - k) // 2) + b"a" * ((L - k) % 2))
            out.append(b"a\n" * ((L - k) // 2) + b"a" * ((L - k) % 2) + b"\xff" * k)
    # the same ratio edges with CRLF inside (a wrongly 'text' block would get normalised)
    for L, ks in ((512, (152, 153, 154, 155, 158, 159)), (13, (3, 4, 5)), (10, (2, 3, 4)), (100, (29, 30, 31)),
                  (200, (59, 60, 61, 62))):
        for k in ks:
            body = (b"a\r\n" * L)[: L - k]
            out.append(b"\xff" * k + body)
            out.append(body + b"\xff" * k)
    out.append(b"a" * 511 + b"\x00")
    out.append(b"a" * 512 + b"\x00" + b"\n")
    out.append(b"\n" * 600)
    out.append(b"\r\n" * 300)
    seen, res = set(), []
    for s in out:
        if s not in seen:
            seen.add(s)
            res.append(s)
    return res


def run_case(case):
    res = {"n": 0, "trans": 0, "states": [], "outcomes": set(), "nontrivial": set(), "viol": [],
           "vac": {"twins_checked": 0, "binary_strings": 0, "text_with_crlf": 0}}
    sigs = set()

    def one(s, full):
        viol, n_ops, tw = check_string(s, full)
        res["n"] += n_ops
        res["trans"] += n_ops
        d = digest_obj(s)
        res["states"].append(d)
        if len(s) >= 2:
            res["nontrivial"].add(d)
        res["vac"]["twins_checked"] += tw
        if not ref.is_text(s):
            res["vac"]["binary_strings"] += 1
        elif b"\r\n" in s:
            res["vac"]["text_with_crlf"] += 1
        for sig, detail in viol:
            if sig not in sigs:
                sigs.add(sig)
                res["viol"].append((sig, detail, {"kind": "string", "hex": s.hex(), "full": full}))
        res["outcomes"].add(len(viol))

    if case["kind"] == "enum":
        prefix = bytes.fromhex(case["prefix"])
        L = case["maxlen"]
        if case.get("exact"):
            one(prefix, True)
        else:
            for ln in range(0, L - len(prefix) + 1):
                for tail in itertools.product(ALPHA, repeat=ln):
                    one(prefix + b"".join(tail), True)
    elif case["kind"] == "structured":
        for s in structured():
            one(s, False)
    elif case["kind"] == "files":
        v, n = check_files(case)
        res["n"] += n
        res["trans"] += n
        for sig, detail in v:
            res["viol"].append((sig, detail, case))
    res["outcomes"] = sorted(res["outcomes"])
    res["nontrivial"] = sorted(res["nontrivial"])
    if case["kind"] == "enum" and not case.get("exact"):
        res["sample"] = {"prefix": case["prefix"], "maxlen": case["maxlen"],
                         "per string": "all read-size compositions, 11 algorithm names, 8 chunk sizes x 3, dos2unix x 3"}
    return res


def check_files(case):
    """File-level entry points on real files (local fs and memfs)."""
    from dvc_objects.fs import MemoryFileSystem

    from dvc_data.hashfile.hash import file_md5, hash_file
    from ..lab import LFS

    viol, n = [], 0
    big = [b"x" * (2**20 - 1), b"y" * (2**20), b"z\r\n" * 350000, b"\x00" * (2**21 + 3)]
    datas = structured()[:: max(1, len(structured()) // 12)] + big + [b"", b"a", b"a\r\nb\r\n", b"l1\r\nl2"]
    with World() as w:
        m = MemoryFileSystem(global_store=False)
        for i, s in enumerate(datas):
            p = w.p(f"f{i}")
            with open(p, "wb") as f:
                f.write(s)
            m.pipe_file(f"/m{i}", s)
            for name in ("md5", "sha256", "blake3", "md5-dos2unix"):
                if name == "md5-dos2unix" and len(s) > 2**20:
                    continue  # claim is for content that fits in one read
                want = ref.digest(name, s)
                for fs, path in ((LFS, p), (m, f"/m{i}")):
                    n += 2
                    got = file_md5(path, fs, name=name)
                    meta, hinfo = hash_file(path, fs, name)
                    if got != want:
                        viol.append((f"file_md5-wrong-digest/{name}", f"len={len(s)} fs={fs.protocol}"))
                    if hinfo.value != want or hinfo.name != name:
                        viol.append((f"hash_file-wrong-digest/{name}", f"len={len(s)} fs={fs.protocol} {hinfo}"))
                    if meta.size != len(s):
                        viol.append(("hash_file-wrong-size", f"{meta.size} != {len(s)}"))
        # the same file asked for under different algorithms through one hash-state: every answer carries the
        # requested algorithm's name and digest (every ordered pair, each also asked twice = cached)
        from dvc_data.hashfile.state import State

        algos = ("md5", "sha256", "md5-dos2unix", "sha1", "blake3")
        small = [d for d in datas if len(d) <= 2**20][:6] + [b"a\r\nb\r\n", b"l1\r\nl2"]   # (CR LF texts: the
        # legacy digest differs from the md5)
        for i, s in enumerate(small):
            for a1 in algos:
                for a2 in algos:
                    if a1 == a2:
                        continue
                    state = State(root_dir=w.root, tmp_dir=w.p(f"st-{i}-{a1}-{a2}"))
                    try:
                        p = w.p(f"f{datas.index(s)}")
                        for name in (a1, a2, a1, a2):
                            n += 1
                            _meta, hinfo = hash_file(p, LFS, name, state=state)
                            if hinfo.name != name or hinfo.value != ref.digest(name, s):
                                viol.append((f"hash_file-through-state-wrong/{name}-after-{a1 if name == a2 else a2}",
                                             f"len={len(s)} got {hinfo}"))
                    finally:
                        state.close()
    return viol, n


def replay(case):
    if case["kind"] == "string":
        return check_string(bytes.fromhex(case["hex"]), case["full"])[0]
    return check_files(case)[0]


def run(ctx):
    L = 7 if ctx.tier == "thorough" else 6
    ctx.rule = (
        f"E1: every byte string over {{a,CR,LF,NUL,0xff}} of length <= {L} x every composition of "
        "read sizes (+ oversize, -1) on the md5 stream, 11 algorithm names, 8 chunk sizes x 3 "
        "algorithms on the driver, sources returning short reads (4 patterns), legacy dos2unix stream with 3 read sizes, CRLF/LF twins; "
        "structured strings around the 512-byte window / 30 % ratio; file-level entry points on "
        "local and memory file systems incl. files around the 1 MiB read size; "
        "non-trivial = string of length >= 2"
    )
    ctx.bound = {"alphabet": [a.hex() for a in ALPHA], "max_len": L, "chunks": CHUNKS,
                 "algorithms": PLAIN_ALGOS + ["md5-dos2unix"]}
    ctx.assumptions = [
        "CRLF/LF twins are generated from CR-free text and the claim is made only when the "
        "independent heuristic classifies both variants as text",
        "shake_128/256 have no fixed-length digest and are not claimed",
        "total_read is claimed for the plain stream only (the legacy stream counts normalised bytes)",
        "dos2unix digest claims are for content that fits in one read",
    ]
    ctx.require("twins_checked", "binary_strings", "text_with_crlf")
    cs = [{"kind": "enum", "prefix": "", "maxlen": 0, "exact": True}]
    for a in ALPHA:
        cs.append({"kind": "enum", "prefix": a.hex(), "maxlen": 1, "exact": True})
        for b in ALPHA:
            cs.append({"kind": "enum", "prefix": (a + b).hex(), "maxlen": L})
    cs.append({"kind": "structured"})
    cs.append({"kind": "files"})
    ctx.run_cases("run_case", cs, chunksize=1, det=3)
