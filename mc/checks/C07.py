"""C07 corrupted objects are detected and dropped, never served; intact ones unharmed.

E2: every sequence (length <= 3) of tamper operations and integrity-relevant
queries on a file object / a directory object, x hash-state {none, cold, warm}
x store class; a three-state model (intact / corrupt / absent) predicts what
each query must do.
"""

import itertools
import os

from .. import ref
from ..colab import CONTENTS, LFS, MD5, TREES, hi, listing, make_odb, tree_oid
from ..lab import RmFaultFS
from ..lab import make_odb as _make_odb
from ..world import World, digest_obj, stamp, walk_files, write_file

TAMPERS = ["truncate", "append", "rewrite-same-len", "rewrite-other-len", "replace-by-rename",
           "replace-by-rename-same-len-same-mtime"]
# fault part: the removal of the object fails (PermissionError) between "deny-rm" and "allow-rm"; the "-halfput"
# adds go through an upload that writes half of the bytes in place at the final path and then fails
FAULT_QUERIES = ["check", "exist1", "hcheck", "checkout", "add-verify-good", "add-verify-bad", "xfer-verify-bad",
                 "add-verify-good-halfput", "add-verify-good-halfput-force"]
QUERIES = ["check", "check-upper", "exist1", "exist2", "exist-bulk", "hcheck", "checkout", "add-verify-good", "add-verify-bad",
           "add-verify-good-force", "add-verify-bad-force", "xfer-verify-bad"]
# a legacy (md5-dos2unix) store holding a CRLF text object that spans two hashing chunks
BIG_TEXT = b"line\r\n" * 174770 + b"tail of the text\r\n"


def tamper(path, how, keep_protected=False, near=False, odd_mode=False):
    data = open(path, "rb").read()
    orig_ns = os.stat(path).st_mtime_ns
    os.chmod(path, 0o644)
    if how == "truncate":
        new = data[:-1] if data else b"!"
    elif how == "append":
        new = data + b"!"
    elif how == "rewrite-same-len":
        new = bytes((b + 1) % 256 for b in data) if data else b"!"
    elif how == "rewrite-other-len":
        new = b"completely different bytes"
    elif how == "replace-by-rename-same-len-same-mtime":
        new = bytes((b + 2) % 256 for b in data) if data else b"!"
    else:
        new = b"renamed-in:" + data
    if how.startswith("replace-by-rename"):
        tmp = path + ".user"
        with open(tmp, "wb") as f:
            f.write(new)
        os.rename(tmp, path)
    else:
        with open(path, "wb") as f:
            f.write(new)
    # odd_mode: owner-write cleared but group / other write set - not the protected mode, so not trusted
    os.chmod(path, 0o444 if keep_protected else (0o466 if odd_mode else 0o644))
    if how == "replace-by-rename-same-len-same-mtime" and data:
        # only the inode tells the difference
        os.utime(path, ns=(orig_ns, orig_ns))
    elif near:
        # the tampering lands in the same second as the original write: mtime differs by half a microsecond
        os.utime(path, ns=(orig_ns + 500, orig_ns + 500))
    else:
        stamp(path)
    return new


def setup(w, kind, statemode, target, fs=None):
    from dvc_data.hashfile.state import State

    def make_odb(kind_, path_, **kw_):   # the store sits on the given (fault-injecting) file system
        return _make_odb(kind_, path_, fs=fs, **kw_)

    state = None
    if statemode == "warm":
        state = State(root_dir=w.root, tmp_dir=w.p("tmp"))
    if target == "legacy":
        odb = make_odb(kind, w.p("cache"), hash_name="md5-dos2unix", **({"state": state} if state else {}))
        src = w.mkdir("src")
        oid = ref.md5(BIG_TEXT.replace(b"\r\n", b"\n"))
        good = os.path.join(src, "big")
        write_file(good, BIG_TEXT)
        odb.add(good, LFS, oid)
        py = os.path.join(src, "y")
        write_file(py, CONTENTS["y"])
        odb.add(py, LFS, ref.digest("md5-dos2unix", CONTENTS["y"]))
        if statemode == "cold":
            state = State(root_dir=w.root, tmp_dir=w.p("tmp"))
            odb.state = state
        bad = os.path.join(src, "bad")
        write_file(bad, BIG_TEXT + b"one more line\r\n")
        return odb, state, oid, good, bad
    odb = make_odb(kind, w.p("cache"), **({"state": state} if state else {}))
    src = w.mkdir("src")
    # tree A and its files, added through the real add()
    for c in set(TREES["A"].values()):
        p = os.path.join(src, c)
        write_file(p, CONTENTS[c])
        odb.add(p, LFS, MD5[c])
    tp = os.path.join(src, "A.dir")
    write_file(tp, ref.tree_bytes(listing("A")))
    odb.add(tp, LFS, tree_oid("A"))
    if statemode == "cold":
        state = State(root_dir=w.root, tmp_dir=w.p("tmp"))
        odb.state = state
    oid = MD5["x"] if target == "file" else tree_oid("A")
    good = os.path.join(src, "x" if target == "file" else "A.dir")
    if target == "crlf":
        # a CR LF text object in a plain md5 store: its name is the md5 of the raw bytes
        good = os.path.join(src, "crlf")
        write_file(good, CONTENTS["crlf"])
        oid = MD5["crlf"]
        odb.add(good, LFS, oid)
    bad = os.path.join(src, "bad")
    write_file(bad, b"not the bytes this name promises")
    return odb, state, oid, good, bad


def run_seq(seq, kind, statemode, target, keep_protected=False, near=False, odd_mode=False):
    from dvc_objects.errors import ObjectFormatError

    from dvc_data.hashfile import check as hcheck
    from dvc_data.hashfile import load
    from dvc_data.hashfile.checkout import CheckoutError, checkout

    viol = []
    counted = {"rejections": 0, "acceptances": 0, "protected_tamper_trusted": 0}
    faulty = "deny-rm" in seq or any("halfput" in o for o in seq)
    fs_ = RmFaultFS() if faulty else LFS
    denied = False
    with World() as w:
        odb, state, oid, good, bad = setup(w, kind, statemode, target, fs=fs_ if faulty else None)
        try:
            good_bytes = open(good, "rb").read()
            path = odb.oid_to_path(oid)
            model = "intact"
            legacy = target == "legacy"
            oid_y = ref.digest("md5-dos2unix", CONTENTS["y"]) if legacy else MD5["y"]
            others = {oid_y: CONTENTS["y"]} if legacy else {MD5[c]: CONTENTS[c] for c in set(TREES["A"].values())}
            tree_obj = None if legacy else load(odb, hi(tree_oid("A")))  # loaded while everything is intact
            for i, op in enumerate(seq):
                where = f"step {i} {op} of {seq} kind={kind} state={statemode} target={target}"
                if op in ("deny-rm", "allow-rm"):
                    denied = op == "deny-rm"
                    fs_.deny = frozenset([path]) if denied else frozenset()
                    continue
                if op == "unprotect":
                    # the object is left writable but keeps its bytes (an interrupted add, a copied cache):
                    # still intact, any check must accept it (and a local store re-protects it)
                    if os.path.exists(path):
                        os.chmod(path, 0o644)
                    continue
                if op in TAMPERS:
                    if model == "absent":
                        continue
                    # always tamper relative to the good bytes so that the result mismatches
                    if model == "corrupt":
                        os.chmod(path, 0o644)
                        with open(path, "wb") as f:
                            f.write(good_bytes)
                    tamper(path, op, keep_protected, near, odd_mode)
                    model = "corrupt"
                    continue
                exists_before = os.path.exists(path)
                if op == "check":
                    try:
                        odb.check(oid)
                        res = "accepted"
                    except ObjectFormatError:
                        res = "rejected"
                    except FileNotFoundError:
                        res = "notfound"
                    except PermissionError:
                        if not denied:
                            raise
                        res = "refused"
                elif op == "check-upper":
                    # the same digest spelled in upper case names no object of the store: nothing may be harmed
                    try:
                        odb.check(oid.upper())
                    except (ObjectFormatError, FileNotFoundError):
                        pass
                    got_u = odb.oids_exist([oid.upper()]) if kind == "local" else []
                    if model == "intact" and (not os.path.exists(path) or open(path, "rb").read() != good_bytes):
                        viol.append(("intact-object-damaged/check-upper", where))
                    if oid.upper() != oid and oid.upper() in got_u and model != "intact":
                        viol.append(("corrupt-object-accepted/check-upper", where))
                    if not os.path.exists(path):
                        model = "absent"
                    continue
                elif op in ("exist1", "exist2", "exist-bulk"):
                    ids = [oid] if op == "exist1" else [oid, oid_y]
                    if op == "exist-bulk":
                        # one query of 1301 ids (the others are absent): above every paging / batching constant
                        from ..lab import BULK_MD5

                        ids = list(BULK_MD5.values())[:650] + [oid] + list(BULK_MD5.values())[650:]
                    try:
                        got = odb.oids_exist(ids)
                    except PermissionError:
                        if not denied:
                            raise
                        got = [oid_y]
                    res = "accepted" if oid in got else "rejected"
                    if op == "exist2" and oid_y not in got:
                        viol.append(("intact-object-reported-missing", f"y at {where}"))
                elif op == "hcheck" and (legacy or target == "crlf"):
                    continue   # (hashfile.check(tree A) says nothing about an object outside tree A)
                elif op == "hcheck":
                    try:
                        hcheck(odb, tree_obj)
                        res = "accepted"
                    except ObjectFormatError:
                        res = "rejected"
                    except FileNotFoundError:
                        res = "notfound"
                    except PermissionError:
                        if not denied:
                            raise
                        res = "refused"
                elif op == "checkout":
                    out = w.p(f"out{i}")
                    try:
                        if target in ("file", "legacy", "crlf"):
                            obj = odb.get(oid)
                            checkout(out, fs_, obj, odb, force=True)
                        else:
                            checkout(out, fs_, tree_obj, odb, force=True)
                        res = "accepted"
                    except CheckoutError:
                        res = "rejected"
                    except PermissionError:
                        if not denied:
                            raise
                        res = "refused"
                    got = walk_files(out)
                    wrong = [k for k, v in got.items()
                             if isinstance(v, bytes) and v not in ({CONTENTS[c] for c in TREES["A"].values()} | {good_bytes})]
                    trusted = keep_protected and kind == "local" and model == "corrupt"
                    if wrong and not trusted:
                        viol.append(("checkout-materialised-corrupt-bytes", f"{wrong} at {where}"))
                    if target in ("file", "legacy", "crlf") and model != "intact" and got and not trusted:
                        viol.append(("checkout-materialised-a-rejected-object", f"{got} at {where}"))
                    if target in ("file", "legacy", "crlf") and model == "intact" and got != {"": good_bytes}:
                        viol.append(("checkout-of-intact-object-failed", f"{got} at {where}"))
                elif op == "xfer-verify-bad":
                    # a verifying, expanded transfer of tree A from a generic source store whose copy of this
                    # file object is corrupt (the destination's own verify setting stays at its default)
                    if target != "file":
                        continue
                    from dvc_data.hashfile.transfer import transfer

                    from ..lab import put_raw

                    srcdb = make_odb("base", w.p(f"srcstore{i}"))
                    for c in set(TREES["A"].values()):
                        put_raw(srcdb, MD5[c], CONTENTS[c] if MD5[c] != oid else b"corrupt:" + CONTENTS[c])
                    put_raw(srcdb, tree_oid("A"), ref.tree_bytes(listing("A")))
                    was = open(path, "rb").read() if os.path.exists(path) else None
                    # (the destination does not hold the directory object yet, so that the file travels as a
                    # member of its directory)
                    dpath = odb.oid_to_path(tree_oid("A"))
                    if os.path.exists(dpath):
                        os.chmod(dpath, 0o644)
                        os.unlink(dpath)
                    try:
                        transfer(srcdb, odb, {hi(tree_oid("A"))}, shallow=False, verify=True, hardlink=False)
                        res = "transferred"
                    except Exception as e:  # noqa: BLE001
                        res = f"raised-{type(e).__name__}"
                    now = open(path, "rb").read() if os.path.exists(path) else None
                    if keep_protected and kind == "local" and model == "corrupt":
                        counted["protected_tamper_trusted"] += 1
                    elif now is not None and now != good_bytes and now != was and not denied:
                        # (a corrupt object that was already there and that the base store's existence query
                        # cannot see is not the transfer's doing)
                        viol.append(("verifying-transfer-retained-mismatching-object", f"{now[:30]!r} at {where}"))
                    model = "intact" if now == good_bytes else ("absent" if now is None else "corrupt")
                    continue
                elif op.startswith("add-verify-"):
                    srcp = good if "good" in op else bad
                    errs = []
                    fs_.half_put = "halfput" in op
                    try:
                        odb.add(srcp, LFS, oid, verify=True, on_error=lambda o, e: errs.append((o, e)),
                                check_exists=not op.endswith("-force"))
                        res = "added"
                    except Exception as e:  # noqa: BLE001
                        res = f"raised-{type(e).__name__}"
                    finally:
                        fs_.half_put = False
                    if "halfput" in op:
                        counted["half_written_uploads"] = counted.get("half_written_uploads", 0) + fs_.half_puts
                        fs_.half_puts = 0
                    now = open(path, "rb").read() if os.path.exists(path) else None
                    if keep_protected and kind == "local" and model == "corrupt":
                        # a corrupt object that kept 0o444 is trusted by design (outside the claim)
                        counted["protected_tamper_trusted"] += 1
                        model = "intact" if now == good_bytes else ("absent" if now is None else "corrupt")
                        continue
                    if now is not None and now != good_bytes and not (denied and (res != "added" or errs)):
                        # (while the removal is refused the store cannot drop it - but then the add must not succeed)
                        viol.append(("verify-retained-mismatching-object", f"{now[:30]!r} at {where}"))
                    if "good" in op and "halfput" not in op and not denied:
                        if now != good_bytes:
                            viol.append(("verified-add-of-good-source-did-not-store-it", f"{res} at {where}"))
                        model = "intact" if now == good_bytes else ("absent" if now is None else "corrupt")
                    else:
                        model = "intact" if now == good_bytes else ("absent" if now is None else "corrupt")
                    continue
                # oracle for check / exist / hcheck / checkout
                exists_after = os.path.exists(path)
                claims_integrity = not (op.startswith("exist") and kind == "base")
                if op == "checkout" and target == "tree":
                    claims_integrity = False  # in-memory listing: by design the stored tree is not needed
                if model == "intact":
                    if res != "accepted":
                        viol.append((f"intact-object-rejected/{op}", where))
                    if not exists_after or open(path, "rb").read() != good_bytes:
                        viol.append((f"intact-object-damaged/{op}", where))
                    elif kind == "local" and op in ("check", "exist1", "exist2", "hcheck") and \
                            (os.stat(path).st_mode & 0o777) != 0o444:
                        viol.append((f"successful-check-left-object-writable/{op}", where))
                    counted["acceptances"] += 1
                elif model == "corrupt":
                    if keep_protected and kind == "local":
                        counted["protected_tamper_trusted"] += 1  # outside the claim
                    elif claims_integrity:
                        if res == "accepted":
                            viol.append((f"corrupt-object-accepted/{op}", where))
                        if exists_after and not denied:
                            viol.append((f"corrupt-object-not-deleted/{op}", where))
                        if denied and fs_.denied:
                            counted["refused_removals"] = counted.get("refused_removals", 0) + 1
                        counted["rejections"] += 1
                    if not exists_after:
                        model = "absent"
                elif model == "absent":
                    if res == "accepted" and claims_integrity:
                        viol.append((f"absent-object-accepted/{op}", where))
                if not os.path.exists(path):
                    model = "absent"
                # the other objects of the store are never harmed
                for o2, data2 in others.items():
                    p2 = odb.oid_to_path(o2)
                    if o2 != oid and (not os.path.exists(p2) or open(p2, "rb").read() != data2):
                        viol.append(("bystander-object-damaged", f"{o2} at {where}"))
        finally:
            if state is not None:
                state.close()
    return viol, counted


def fault_seqs(first):
    """Sequences of the fault part that start with tamper `first`."""
    halfs = [q for q in FAULT_QUERIES if "halfput" in q]
    out = []
    for q1 in FAULT_QUERIES:
        for q2 in FAULT_QUERIES:
            out.append(((first, "deny-rm", q1, "allow-rm", q2), "/removal-refused-then-allowed"))
    for qh in halfs:
        for q2 in FAULT_QUERIES:
            out.append(((first, qh, q2), "/half-written-upload"))
            for q1 in FAULT_QUERIES:
                out.append(((first, q1, qh, q2), "/half-written-upload"))
    if first == TAMPERS[0]:
        for qh in halfs:
            out.append(((qh,), "/half-written-upload"))
            for q2 in FAULT_QUERIES:
                out.append(((qh, q2), "/half-written-upload"))
    return out


def fault_case(case):
    res = {"n": 0, "trans": 0, "states": [], "outcomes": set(), "nontrivial": set(), "viol": [],
           "vac": {"rejections": 0, "acceptances": 0, "protected_tamper_trusted": 0}}
    sigs = set()
    for seq, suffix in fault_seqs(case["first"]):
        for target in ("file", "tree"):
            viol, counted = run_seq(seq, case["kind"], case["state"], target)
            res["n"] += 1
            res["trans"] += len(seq)
            res["vac"]["fault_runs"] = res["vac"].get("fault_runs", 0) + 1
            for k, v in counted.items():
                res["vac"][k] = res["vac"].get(k, 0) + v
            d = digest_obj((seq, target, case["kind"], case["state"], "fault"))
            res["states"].append(d)
            res["nontrivial"].add(d)
            res["outcomes"].add(repr(sorted(v[0] for v in viol)))
            for sig, detail in viol:
                sig = sig + suffix
                if sig not in sigs:
                    sigs.add(sig)
                    res["viol"].append((sig, detail, {"seq": list(seq), "kind": case["kind"], "state": case["state"],
                                                      "target": target, "keep": False, "suffix": suffix}))
    res["outcomes"] = sorted(res["outcomes"])
    res["nontrivial"] = sorted(res["nontrivial"])
    res["sample"] = {"first_op": case["first"], "part": "fault", "kind": case["kind"], "state": case["state"]}
    return res


def run_case(case):
    if case.get("part") == "fault":
        return fault_case(case)
    res = {"n": 0, "trans": 0, "states": [], "outcomes": set(), "nontrivial": set(), "viol": [],
           "vac": {"rejections": 0, "acceptances": 0, "protected_tamper_trusted": 0}}
    sigs = set()
    ops = TAMPERS + ["unprotect"] + QUERIES
    first = case["first"]
    for rest in itertools.product(ops, repeat=case["depth"] - 1):
        seq = (first, *rest)
        if not any(o in QUERIES for o in seq):
            continue
        for target in ("file", "tree"):
            viol, counted = run_seq(seq, case["kind"], case["state"], target, case["keep"], case.get("near", False))
            res["n"] += 1
            res["trans"] += len(seq)
            for k, v in counted.items():
                res["vac"][k] = res["vac"].get(k, 0) + v
            d = digest_obj((seq, target, case["kind"], case["state"], case["keep"], case.get("near", False)))
            res["states"].append(d)
            if any(o in TAMPERS for o in seq):
                res["nontrivial"].add(d)
            res["outcomes"].add(repr(sorted(v[0] for v in viol)))
            for sig, detail in viol:
                if sig not in sigs:
                    sigs.add(sig)
                    res["viol"].append((sig, detail, {"seq": list(seq), "kind": case["kind"],
                                                      "state": case["state"], "target": target,
                                                      "keep": case["keep"], "near": case.get("near", False)}))
    if first in TAMPERS and not case["keep"]:
        for q in QUERIES:
            for seq in ((first, q), (q, first, q)):
                for tgt2, odd in (("crlf", False), ("file", True), ("tree", True)):
                    if odd and case["kind"] != "local":
                        continue
                    v2, _c2 = run_seq(seq, case["kind"], case["state"], tgt2, False, case.get("near", False), odd_mode=odd)
                    res["n"] += 1
                    res["trans"] += len(seq)
                    res["vac"]["crlf_or_odd_mode_runs"] = res["vac"].get("crlf_or_odd_mode_runs", 0) + 1
                    d2 = digest_obj((seq, tgt2, odd, case["kind"], case["state"], case.get("near", False)))
                    res["states"].append(d2)
                    res["nontrivial"].add(d2)
                    for sig, detail in v2:
                        sig = sig + ("/mode-0466" if odd else "/crlf-object")
                        if sig not in sigs:
                            sigs.add(sig)
                            res["viol"].append((sig, detail, {"seq": list(seq), "kind": case["kind"], "state": case["state"],
                                                              "target": tgt2, "keep": False, "near": case.get("near", False),
                                                              "odd_mode": odd}))
                viol, counted = run_seq(seq, case["kind"], case["state"], "legacy", False, case.get("near", False))
                res["n"] += 1
                res["trans"] += len(seq)
                res["vac"]["legacy_big_text_runs"] = res["vac"].get("legacy_big_text_runs", 0) + 1
                d = digest_obj((seq, "legacy", case["kind"], case["state"], case.get("near", False)))
                res["states"].append(d)
                res["nontrivial"].add(d)
                res["outcomes"].add(repr(sorted(v[0] for v in viol)))
                for sig, detail in viol:
                    if sig not in sigs:
                        sigs.add(sig)
                        res["viol"].append((sig, detail, {"seq": list(seq), "kind": case["kind"],
                                                          "state": case["state"], "target": "legacy",
                                                          "keep": False, "near": case.get("near", False)}))
    res["outcomes"] = sorted(res["outcomes"])
    res["nontrivial"] = sorted(res["nontrivial"])
    res["sample"] = {"first_op": first, "depth": case["depth"], "kind": case["kind"], "state": case["state"]}
    return res


def replay(case):
    v = run_seq(tuple(case["seq"]), case["kind"], case["state"], case["target"], case["keep"],
                case.get("near", False), odd_mode=case.get("odd_mode", False))[0]
    if case.get("suffix"):
        return [(s_ + case["suffix"], d_) for s_, d_ in v]
    if case.get("odd_mode"):
        return [(s_ + "/mode-0466", d_) for s_, d_ in v]
    if case["target"] == "crlf":
        return [(s_ + "/crlf-object", d_) for s_, d_ in v]
    return v


def run(ctx):
    depth = 3
    ops = TAMPERS + ["unprotect"] + QUERIES
    ctx.rule = (
        f"E2: every sequence of length {depth} over 6 tamper patterns (truncate, append, rewrite same / other "
        "length, replace by rename, replace by rename keeping length and mtime; each followed by chmod 0o644 and a logical-clock mtime) and 12 queries (check, "
        "oids_exist with 1 and 2 ids, hashfile.check(tree), checkout, add(verify) from a good and from a corrupt "
        "source, each also with check_exists=False) on a file object and on a directory object (and, sequences "
        "tamper-query / query-tamper-query, on a 1 MiB+ CRLF text object of a legacy md5-dos2unix store) x state {none, cold, warm (entry from before the "
        "tampering)} x both store classes; thorough adds the variants that keep 0o444 (outside the claim, only "
        "counted); fault part: tamper, then the removal of the object refused (PermissionError) during one query and "
        "permitted again for the next (9 x 9 queries), and adds whose upload writes half of the bytes in place at "
        "the final path and fails, before / between the queries; non-trivial = sequence containing a tamper"
    )
    ctx.bound = {"depth": depth, "operations": ops, "states": ["none", "cold", "warm"]}
    ctx.assumptions = [
        "tampering changes the mtime (logical clock far away, or - warm state - the recorded mtime + 1 microsecond), "
        "i.e. never restores (inode, mtime, size), which the property excludes",
        "only the local store's existence query is an integrity check; the base class answers from a listing",
        "checkout of an already loaded directory listing does not need the stored directory object (by design)",
        "tampering that keeps the 0o444 mode on a local store is trusted by design and only counted",
    ]
    ctx.require("rejections", "acceptances", "legacy_big_text_runs", "crlf_or_odd_mode_runs", "fault_runs",
                "refused_removals", "half_written_uploads")
    cs = []
    keeps = [False, True] if ctx.tier == "thorough" else [False]
    for kind in ("local", "base"):
        for st in ("none", "cold", "warm"):
            for keep in keeps:
                for first in ops:
                    cs.append({"kind": kind, "state": st, "keep": keep, "first": first, "depth": depth})
                    if st == "warm" and not keep:
                        # same tampering, but its mtime differs from the recorded one by 1 microsecond only
                        cs.append({"kind": kind, "state": st, "keep": keep, "first": first, "depth": depth,
                                   "near": True})
    for kind in ("local", "base"):
        for st in ("none", "cold", "warm"):
            for first in TAMPERS:
                cs.append({"part": "fault", "kind": kind, "state": st, "first": first})
    ctx.run_cases("run_case", cs, chunksize=1, det=2)
