"""setup_cmd: verify that everything the checks need is importable offline."""
import os
import sys

from . import VERIF, assert_tree


def main():
    assert_tree()
    import blake3  # noqa: F401
    import dictdiffer  # noqa: F401
    import diskcache  # noqa: F401
    import dvc_objects  # noqa: F401
    import sqltrie  # noqa: F401

    from . import lab, ref, world  # noqa: F401

    for d in ("evidence", "replays"):
        os.makedirs(os.path.join(VERIF, d), exist_ok=True)
    print("mc setup ok; python", sys.version.split()[0])


main()
