"""C19 three-way directory merge never silently loses or overrides an entry.

E1: all triples (ancestor, ours, theirs) over a small key universe (one nested
key) with values {absent, v1, v2}, all policies; real `_merge` vs the per-key
three-way rule; plus the public `merge()` on listings stored in a real store.
"""

CASE_TIMEOUT = 300  # seconds per pool task (the unchanged tree needs a small fraction of this)

import copy
import itertools
import os

from .. import ref
from ..lab import hi, make_odb, put_raw
from ..world import World, digest_obj

H = {1: ref.md5(b"v1"), 2: ref.md5(b"v2").upper()}   # (the second value is spelled in upper-case hex)

POLICIES = {
    "default": None,
    "add": ["add"],
    "add+change": ["add", "change"],
    "add+remove": ["add", "remove"],
    "all": ["add", "change", "remove"],
    "change": ["change"],
    "remove": ["remove"],
    "change+remove": ["change", "remove"],
}


def keys_for(tier):
    ks = [("d-x", "y"), ("d.b",), ("d", "c")]   # '-' and '.' sort before '/': string order != component order
    if tier == "thorough":
        ks.append(("d", "e"))
    return ks


def mk_dict(keys, assign):
    """assign: tuple of 0/1/2 per key -> dict as Tree.as_dict() would give."""
    from dvc_data.hashfile.tree import Tree

    lst = [
        {"md5": H[v], "relpath": "/".join(k)} for k, v in zip(keys, assign) if v
    ]
    return Tree.from_list(lst).as_dict()


def plain(d):
    """dict -> {key: md5 value} (the part the property talks about)."""
    out = {}
    for k, (meta, oid) in d.items():
        out[k] = oid.value if oid is not None else None
    return out


def op(b, s):
    if b == s:
        return "none"
    if not b:
        return "add"
    if not s:
        return "remove"
    return "change"


def check_triple(keys, a, o, t, polname, merge_fn, MergeError):
    """Returns (violations, outcome-tag)."""
    allowed = POLICIES[polname]
    A, O, T = mk_dict(keys, a), mk_dict(keys, o), mk_dict(keys, t)
    A0, O0, T0 = copy.deepcopy(A), copy.deepcopy(O), copy.deepcopy(T)
    ra, ro, rt = (dict(zip(keys, x)) for x in (a, o, t))
    ra = {k: v for k, v in ra.items() if v}
    ro = {k: v for k, v in ro.items() if v}
    rt = {k: v for k, v in rt.items() if v}
    expect, conflicts = ref.three_way(ra, ro, rt)
    expect = {k: H[v] for k, v in expect.items()}
    viol = []

    def conflict_kinds():
        kinds = set()
        for k in conflicts:
            pair = sorted((op(ra.get(k), ro.get(k)), op(ra.get(k), rt.get(k))))
            kinds.add("-vs-".join(pair))
        return "+".join(sorted(kinds)) or "none"

    results = []
    for first, second in ((O, T), (T, O)):
        try:
            r = merge_fn(A, first, second, allowed=allowed)
            results.append(("ok", plain(r), r))
        except MergeError:
            results.append(("MergeError", None, None))
        except Exception as e:  # noqa: BLE001
            results.append((type(e).__name__, None, None))
            viol.append(
                (
                    f"raises-{type(e).__name__}/policy={polname}/conflict={conflict_kinds()}",
                    f"{type(e).__name__}: {e!r} (only MergeError is an allowed failure)",
                )
            )
    if (A, O, T) != (A0, O0, T0):
        viol.append(("inputs-mutated", "merge modified one of its argument dicts"))
    for tag, got, raw in results:
        if tag != "ok":
            continue
        if conflicts:
            viol.append(
                (
                    f"conflict-silently-resolved/policy={polname}/conflict={conflict_kinds()}",
                    f"conflicting keys {conflicts} but merge returned {got}",
                )
            )
        elif got != expect:
            lost = sorted(set(expect) - set(got))
            extra = sorted(set(got) - set(expect))
            diff = sorted(k for k in set(got) & set(expect) if got[k] != expect[k])
            kind = "lost" if lost else ("resurrected" if extra else "overridden")
            viol.append(
                (
                    f"wrong-merge-{kind}/policy={polname}",
                    f"expected {expect} got {got} lost={lost} extra={extra} differ={diff}",
                )
            )
        # aliasing: result must not share mutable structure with the inputs
        if raw is not None:
            for src in (A, O, T):
                if raw is src and raw:
                    viol.append(("result-aliases-input", "returned dict is an input"))
    if results[0][0] == "ok" and results[1][0] == "ok" and results[0][1] != results[1][1]:
        viol.append(("order-dependent-result", f"{results[0][1]} != {results[1][1]}"))
    if polname in ("default", "add"):
        ops_o = {op(ra.get(k), ro.get(k)) for k in keys} - {"none"}
        ops_t = {op(ra.get(k), rt.get(k)) for k in keys} - {"none"}
        if ops_o and ops_t and (ops_o | ops_t) - {"add"}:
            for tag, got, _ in results:
                if tag == "ok":
                    viol.append(
                        (
                            "default-policy-accepted-non-add",
                            f"ours {sorted(ops_o)} theirs {sorted(ops_t)} merged to {got}",
                        )
                    )
    return viol, (results[0][0], results[1][0], bool(conflicts))


def run_case(case):
    from dvc_data.hashfile.tree import MergeError, _merge

    keys = [tuple(k) for k in case["keys"]]
    a = tuple(case["a"])
    res = {"n": 0, "trans": 0, "states": set(), "outcomes": set(), "nontrivial": set(),
           "viol": [], "vac": {"success_both_changed": 0, "merge_error": 0, "conflicts": 0}}
    vals = list(itertools.product((0, 1, 2), repeat=len(keys)))
    seen_sig = set()
    for o in vals:
        for t in vals:
            d = digest_obj((a, o, t))
            res["states"].add(d)
            if o != a and t != a and o != t:
                res["nontrivial"].add(d)
            for pol in case["policies"]:
                viol, outcome = check_triple(keys, a, o, t, pol, _merge, MergeError)
                res["n"] += 1
                res["trans"] += 2
                res["outcomes"].add(repr((pol, outcome)))
                if outcome[0] == "ok" and o != a and t != a:
                    res["vac"]["success_both_changed"] += 1
                if "MergeError" in outcome[:2]:
                    res["vac"]["merge_error"] += 1
                if outcome[2]:
                    res["vac"]["conflicts"] += 1
                for sig, detail in viol:
                    if sig in seen_sig and len(res["viol"]) > 50:
                        res["vac"]["viol_" + sig] = res["vac"].get("viol_" + sig, 0) + 1
                        continue
                    seen_sig.add(sig)
                    res["viol"].append(
                        (sig, detail, {"keys": case["keys"], "a": a, "o": o, "t": t, "policy": pol})
                    )
    for k in ("states", "outcomes", "nontrivial"):
        res[k] = sorted(res[k])
    res["sample"] = {"ancestor": dict(zip(["/".join(k) for k in keys], a)),
                     "ours x theirs": len(vals) ** 2, "policies": case["policies"]}
    return res


def replay(case):
    from dvc_data.hashfile.tree import MergeError, _merge

    if case.get("public_fault"):
        r = public_fault({"kind": case["kind"], "only": [case["public_fault"], tuple(case["a"]), tuple(case["o"]),
                                                         tuple(case["t"]), case["policy"]]})
        return [(sg, d) for sg, d, _c in r["viol"]]
    if case.get("bulk"):
        return [(s_, d) for s_, d, _c in bulk_merge(case)["viol"]]
    if case.get("public"):
        # the public merges run as one session on one store (merge must be a pure function of its arguments,
        # whatever was merged before): replay the session up to and including the reported call
        vals = list(itertools.product((0, 1, 2), repeat=2))
        target = (tuple(case["a"]) if case["a"] is not None else None, tuple(case["o"]), tuple(case["t"]),
                  case["policy"])
        with World() as w:
            odb, infos = _public_store(w, case["kind"], PKEYS, vals, case.get("alg", "md5"))
            for a in [None, *vals]:
                for o in vals:
                    for t in vals:
                        for pol in case.get("policies") or list(POLICIES):
                            v, _out = public_one(odb, infos, a, o, t, pol, case.get("alg", "md5"))
                            if (a, o, t, pol) == target:
                                return v
        return []
    keys = [tuple(k) for k in case["keys"]]
    viol, _ = check_triple(keys, tuple(case["a"]), tuple(case["o"]), tuple(case["t"]),
                           case["policy"], _merge, MergeError)
    return viol


# ---- the public merge() on stored listings --------------------------------


def _public_store(w, kind, keys, vals, alg="md5"):
    """Listings stored in a store of algorithm `alg` (entries keyed by that algorithm's name)."""
    odb = make_odb(kind, w.p("store"), **({"hash_name": alg} if alg != "md5" else {}))
    infos = {}
    for v in vals:
        entries = {"/".join(k): H[x] for k, x in zip(keys, v) if x}
        jkey = "md5" if alg == "md5-dos2unix" else alg   # legacy listings are keyed "md5" on disk
        oid = ref.tree_oid(entries, jkey)
        put_raw(odb, oid, ref.tree_bytes(entries, jkey))
        infos[v] = hi(oid, alg)
    return odb, infos


PKEYS = [("d-x", "y\\z"), ("d", "c")]   # (a name containing a backslash; "d-x/..." sorts before "d/..." as a string only)


def public_one(odb, infos, a, o, t, pol, alg="md5"):
    from dvc_data.hashfile.tree import MergeError, Tree, merge

    keys = PKEYS
    av = a if a is not None else (0, 0)
    ra = {k: x for k, x in zip(keys, av) if x}
    ro = {k: x for k, x in zip(keys, o) if x}
    rt = {k: x for k, x in zip(keys, t) if x}
    expect, conflicts = ref.three_way(ra, ro, rt)
    viol = []
    ours_info = infos[o]
    if a is not None and alg == "md5" and set(ra) <= set(ro):
        # "ours" is produced the way an application does it: load the ancestor, add / replace entries on that
        # object, digest and store it - the stored ancestor (and what merge() loads for it) must be unaffected
        from dvc_data.hashfile import load
        from dvc_data.hashfile.hash_info import HashInfo

        mine = load(odb, infos[a])
        for k, x in ro.items():
            if ra.get(k) != x:
                mine.add(k, None, HashInfo("md5", H[x]))
        mine.digest()
        odb.add(mine.path, mine.fs, mine.oid, hardlink=False)
        if mine.hash_info.value != infos[o].value:
            viol.append(("listing-derived-from-loaded-ancestor-has-another-id", f"{mine.hash_info} vs {infos[o]}"))
        ours_info = mine.hash_info
    try:
        m = merge(odb, infos[a] if a is not None else None, ours_info, infos[t],
                  allowed=POLICIES[pol])
    except MergeError:
        return viol, "MergeError"
    except Exception as e:  # noqa: BLE001
        viol.append((f"public-merge-raises-{type(e).__name__}/policy={pol}", repr(e)))
        return viol, type(e).__name__
    got = {"/".join(k): oid.value for k, _m, oid in m}
    exp = {"/".join(k): H[x] for k, x in expect.items()}
    if conflicts:
        viol.append(("public-conflict-silently-resolved", f"{got}"))
    elif got != exp:
        viol.append(("public-wrong-merge", f"expected {exp} got {got}"))
    if not isinstance(m, Tree) or (alg == "md5" and m.oid != ref.tree_oid(got)):
        # (for a store of another algorithm only the merged entries are claimed, not the identifier's form)
        viol.append(("merged-id-not-canonical", f"oid {m.oid} != {ref.tree_oid(got)}"))
    names = {oid.name for _k, _m, oid in m if oid}
    if names - {alg}:
        viol.append(("merged-entries-named-by-another-algorithm", f"{names} in a {alg} store"))
    if m.hash_info is None or m.hash_info.value != m.oid:
        viol.append(("merged-hash-info-mismatch", repr(m.hash_info)))
    if alg == "md5":
        # another merge result is computed before this one is stored; storing and reloading it must still give
        # this merge's entries
        from dvc_data.hashfile.tree import Tree as _Tree

        try:
            merge(odb, None, infos[t], infos[t], allowed=POLICIES["all"])
            merge(odb, infos[o], infos[o], infos[t], allowed=POLICIES["all"])
        except MergeError:
            pass
        out = make_odb("base", odb.path + ".merged")   # (the session's store already holds every possible listing)
        out.add(m.path, m.fs, m.oid, hardlink=False)
        back = _Tree.load(out, m.hash_info)
        got2 = {"/".join(k): oid.value for k, _m, oid in back}
        if got2 != got:
            viol.append(("stored-merge-result-reloads-as-another-listing", f"stored {got}, reloaded {got2}"))
        os.unlink(out.oid_to_path(m.oid))
    return viol, "ok"


def public_fault(case):
    """The ancestor directory object is missing / truncated / not a list: no silently wrong result."""
    import os

    from dvc_data.hashfile.tree import merge

    res = {"n": 0, "trans": 0, "states": [], "outcomes": set(), "nontrivial": set(), "viol": [],
           "vac": {"public_fault_runs": 0}}
    vals = list(itertools.product((0, 1, 2), repeat=2))
    sigs = set()
    only = case.get("only")
    for fault in ("missing", "truncated", "not-a-list"):
        for a in vals:
            if a == (0, 0) or (only and (fault, a) != (only[0], only[1])):
                continue
            with World() as w:
                odb, infos = _public_store(w, case["kind"], PKEYS, vals)
                p = odb.oid_to_path(infos[a].value)
                os.chmod(p, 0o644)
                if fault == "missing":
                    os.unlink(p)
                elif fault == "truncated":
                    data = open(p, "rb").read()
                    open(p, "wb").write(data[: max(1, len(data) // 2)])
                else:
                    open(p, "wb").write(b'{"md5": "x"}')
                for o in vals:
                    for t in vals:
                        if infos[o].value == infos[a].value or infos[t].value == infos[a].value:
                            continue  # ours / theirs must stay loadable
                        for pol in ("default", "all"):
                            if only and (o, t, pol) != (only[2], only[3], only[4]):
                                continue
                            res["n"] += 1
                            res["trans"] += 1
                            res["vac"]["public_fault_runs"] += 1
                            ra = {k: x for k, x in zip(PKEYS, a) if x}
                            ro = {k: x for k, x in zip(PKEYS, o) if x}
                            rt = {k: x for k, x in zip(PKEYS, t) if x}
                            expect, conflicts = ref.three_way(ra, ro, rt)
                            try:
                                m = merge(odb, infos[a], infos[o], infos[t], allowed=POLICIES[pol])
                            except Exception as e:  # noqa: BLE001
                                res["outcomes"].add(type(e).__name__)
                                continue
                            got = {"/".join(k): oid.value for k, _m, oid in m}
                            exp = {"/".join(k): H[x] for k, x in expect.items()}
                            res["outcomes"].add("returned")
                            if conflicts or got != exp:
                                sig = f"merge-with-unreadable-ancestor-returned-wrong-result/{fault}"
                                if sig not in sigs:
                                    sigs.add(sig)
                                    res["viol"].append((sig, f"ancestor {a} ours {o} theirs {t}: got {got}, true merge {exp if not conflicts else 'CONFLICT'}",
                                                        {"public_fault": fault, "kind": case["kind"], "a": a, "o": o, "t": t, "policy": pol}))
    res["outcomes"] = sorted(res["outcomes"])
    return res


def bulk_merge(case):
    """Listings of 20000 entries (their JSON is larger than the 1 MiB hashing chunk): both sides add one entry."""
    from dvc_data.hashfile.tree import merge

    res = {"n": 1, "trans": 1, "states": [digest_obj("bulk-merge")], "outcomes": set(), "nontrivial": [digest_obj("bulk-merge")],
           "viol": [], "vac": {"bulk_merges": 1}}
    n = 20000
    base = {f"dir{i % 50:02d}/file-{i:05d}": ref.md5(b"%d" % i) for i in range(n)}
    ours = dict(base, **{"ours-new": H[1]})
    theirs = dict(base, **{"zz/theirs-new": H[2]})
    with World() as w:
        odb = make_odb(case["kind"], w.p("store"))
        infos = []
        for entries in (base, ours, theirs):
            put_raw(odb, ref.tree_oid(entries), ref.tree_bytes(entries))
            infos.append(hi(ref.tree_oid(entries)))
        try:
            m = merge(odb, *infos)
        except Exception as e:  # noqa: BLE001
            res["viol"].append((f"bulk-merge-raises-{type(e).__name__}", repr(e)[:300], {"bulk": True, "kind": case["kind"]}))
            return res
        got = {"/".join(k): oid.value for k, _m, oid in m}
        want = dict(base, **{"ours-new": H[1], "zz/theirs-new": H[2]})
        if got != want:
            res["viol"].append(("bulk-merge-wrong-entries", f"{len(got)} entries", {"bulk": True, "kind": case["kind"]}))
        if m.oid != ref.tree_oid(want):
            res["viol"].append(("merged-id-not-canonical/bulk", f"{m.oid} != {ref.tree_oid(want)} (listing of {len(ref.tree_bytes(want))} bytes)",
                                {"bulk": True, "kind": case["kind"]}))
    res["outcomes"] = ["ok"]
    return res


def run_public(case):
    res = {"n": 0, "trans": 0, "states": set(), "outcomes": set(), "nontrivial": set(),
           "viol": [], "vac": {"public_merge_ok": 0}}
    vals = list(itertools.product((0, 1, 2), repeat=2))
    alg = case.get("alg", "md5")
    with World() as w:
        odb, infos = _public_store(w, case["kind"], PKEYS, vals, alg)
        for a in [None, *vals]:
            for o in vals:
                for t in vals:
                    for pol in case["policies"]:
                        res["n"] += 1
                        res["trans"] += 1
                        res["states"].add(digest_obj((a, o, t, alg)))
                        sub = {"public": True, "kind": case["kind"], "a": a, "o": o, "t": t,
                               "policy": pol, "policies": list(case["policies"]), "alg": alg}
                        viol, outcome = public_one(odb, infos, a, o, t, pol, alg)
                        res["outcomes"].add(outcome)
                        if outcome == "ok":
                            res["vac"]["public_merge_ok"] += 1
                        for sig, detail in viol:
                            res["viol"].append((sig, detail, sub))
    for k in ("states", "outcomes", "nontrivial"):
        res[k] = sorted(res[k])
    return res


def run(ctx):
    keys = keys_for(ctx.tier)
    pols = list(POLICIES) if True else None
    ctx.rule = (
        "E1 product: all (ancestor, ours, theirs) assignments of {absent,v1,v2} to the key "
        "universe x all policies x both argument orders on the real _merge, vs per-key "
        "three-way rule; public merge() on stored listings for all triples over 2 keys; "
        "non-trivial = both sides differ from the ancestor and from each other"
    )
    ctx.bound = {"keys": ["/".join(k) for k in keys], "values": ["absent", "v1", "v2"],
                 "policies": pols}
    ctx.assumptions = [
        "MergeError is always an acceptable outcome (the property allows failing with a merge error)",
        "values differ in hash (and the md5 metadata field derived from it) only",
    ]
    ctx.require("success_both_changed", "merge_error", "conflicts", "public_merge_ok", "public_fault_runs", "bulk_merges")
    cs = [{"keys": keys, "a": a, "policies": pols}
          for a in itertools.product((0, 1, 2), repeat=len(keys))]
    ctx.run_cases("run_case", cs, chunksize=1, det=2)
    pub = [{"kind": k, "policies": pols} for k in ("local", "base")]
    # stores of other algorithms (listings keyed by that algorithm's name)
    pub += [{"kind": "local", "policies": ["default", "all"], "alg": alg} for alg in ("sha256", "sha1", "md5-dos2unix")]
    for case, res in ctx.pmap("run_public", pub, 1):
        ctx.absorb(case, res)
    for case, res in ctx.pmap("bulk_merge", [{"kind": "local"}, {"kind": "base"}], 1):
        ctx.absorb(case, res)
    for case, res in ctx.pmap("public_fault", [{"kind": k} for k in ("local", "base")], 1):
        ctx.absorb(case, res)


