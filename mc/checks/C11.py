"""C11 a transfer's result tells the truth about what arrived.

E3: request shapes x source contents x destination contents x every subset of
failing uploads (x corrupt sources under verify); TransferResult compared with a
listing + re-hash of the destination and a byte snapshot of the source.
"""

from .. import ref
from ..world import World, digest_obj, objects_only, store_snapshot
from ..xfer import (
    LISTING,
    OID_BYTES,
    SCENARIOS,
    TREE_OID,
    Plan,
    XWorld,
    files_of_trees,
    name_of,
    subsets,
)
from ..lab import hi


def request_ids(trees, shape):
    files = files_of_trees(trees)
    dirs = [TREE_OID[t] for t in trees]
    if shape == "files":
        return {hi(o) for o in files}, True, set(files)
    if shape == "shallowdir":
        return {hi(o) for o in dirs}, True, set(dirs)
    if shape == "closed":
        return {hi(o) for o in files + dirs}, True, set(files + dirs)
    return {hi(o) for o in dirs}, False, set(files + dirs)  # expanded


def one_exec(cfg, fail, corrupt):
    trees = SCENARIOS[cfg["scenario"]]
    files = files_of_trees(trees)
    dirs = [TREE_OID[t] for t in trees]
    viol = []
    info = {"events": 0, "fired": 0, "resent": 0}
    src_missing = []
    if cfg["src"] == "file-missing":
        src_missing = [files[-1]]
    elif cfg["src"] == "dir-missing":
        src_missing = [dirs[0]]
    initial = {"empty": [], "partial": files[:1], "complete": files + dirs}[cfg["dest0"]]
    with World() as w:
        xw = XWorld(w, trees, dest_kind=cfg["dest"], dest_initial=initial, src_missing=src_missing,
                    verify=cfg["verify"], corrupt=corrupt)
        try:
            ids, shallow, universe = request_ids(trees, cfg["shape"])
            src_before = store_snapshot(xw.src.path)
            dest_before = objects_only(store_snapshot(xw.dest.path))
            plan = Plan(fail_oids=fail)
            try:
                res = xw.transfer(ids, plan=plan, shallow=shallow, verify=cfg["verify"])
            except Exception as e:  # noqa: BLE001
                viol.append((f"transfer-raises-{type(e).__name__}", repr(e)))
                return viol, info
            info["events"] = len(plan.events)
            info["fired"] = plan.fired
            src_after = store_snapshot(xw.src.path)
            dest_after = objects_only(store_snapshot(xw.dest.path))
            tr = {h.value for h in res.transferred}
            fl = {h.value for h in res.failed}
            if src_after != src_before:
                viol.append(("source-store-modified", f"{sorted(map(str, set(src_after) ^ set(src_before)))}"))
            if tr & fl:
                viol.append(("transferred-and-failed-overlap", f"{[name_of(o) for o in tr & fl]}"))
            for o in sorted(tr):
                if o not in dest_after:
                    why = "other"
                    if o in dirs and set(LISTING[name_of(o)].values()) & set(src_missing):
                        why = "dir-skipped-because-files-missing-on-both-sides"
                    elif cfg["verify"] and (o in corrupt or (o in dirs and set(LISTING[name_of(o)].values()) & set(corrupt))):
                        why = "verify-removed-corrupt-object"
                    viol.append((f"reported-transferred-but-absent/{why}",
                                 f"{name_of(o)} cfg={cfg} fail={[name_of(f) for f in fail]} corrupt={[name_of(c) for c in corrupt]}"))
                elif dest_after[o][0] != OID_BYTES[o]:
                    viol.append(("reported-transferred-with-wrong-bytes", f"{name_of(o)} verify={cfg['verify']}"))
            src_has = {o for o in objects_only(src_before)}
            for o in sorted(universe):
                if o in dest_after:
                    continue
                if o in fl:
                    continue
                if o not in src_has and o not in dest_before:
                    continue  # missing from both sides
                if o in tr:
                    continue  # already reported above
                viol.append(("absent-object-neither-failed-nor-missing", f"{name_of(o)} cfg={cfg}"))
            for o in sorted(dest_before):
                if o in tr or o in fl:
                    viol.append(("already-present-object-reported", f"{name_of(o)}"))
            resent = [oid for _k, oid, _r in plan.events if oid in dest_before]
            if resent:
                info["resent"] = len(resent)
                viol.append(("already-present-object-re-sent", f"{[name_of(o) for o in resent]}"))
            # new = requested (expanded) and in source and not in destination
            new = {o for o in universe if o in src_has and o not in dest_before}
            if cfg["verify"] and corrupt:
                pass  # with corrupt sources the partition is checked through the clauses above
            elif (tr | fl) != new:
                lost = new - (tr | fl)
                extra = (tr | fl) - new
                viol.append(("result-is-not-a-partition-of-new-objects",
                             f"unreported={[name_of(o) for o in lost]} extra={[name_of(o) for o in extra]}"))
            # with verify, no mismatching object may remain
            if cfg["verify"]:
                for o, (data, _m) in dest_after.items():
                    if isinstance(data, bytes) and ref.md5(data) != o.split(".")[0]:
                        viol.append(("verify-left-mismatching-object", name_of(o)))
        finally:
            xw.close()
    return viol, info


def run_case(case):
    cfg = case["cfg"]
    trees = SCENARIOS[cfg["scenario"]]
    files = files_of_trees(trees)
    dirs = [TREE_OID[t] for t in trees]
    res = {"n": 0, "trans": 0, "states": [], "outcomes": set(), "nontrivial": set(), "viol": [],
           "vac": {"faults_fired": 0, "verify_corrupt_runs": 0, "both_sides_missing_runs": 0,
                   "already_present_runs": 0}}
    sigs = set()
    _ids, _sh, universe = request_ids(trees, cfg["shape"])
    cands = [o for o in files + dirs if o in universe]
    corrupt_sets = [()]
    if cfg["verify"]:
        corrupt_sets = list(subsets([f for f in files if f in universe or cfg["shape"] != "files"]))
    for corrupt in corrupt_sets:
        fails = list(subsets(cands)) if not corrupt else list(subsets(cands, 1))
        for fail in fails:
            viol, info = one_exec(cfg, list(fail), list(corrupt))
            res["n"] += 1
            res["trans"] += info["events"] + 1
            res["vac"]["faults_fired"] += info["fired"]
            if corrupt:
                res["vac"]["verify_corrupt_runs"] += 1
            if cfg["src"] != "complete":
                res["vac"]["both_sides_missing_runs"] += 1
            if cfg["dest0"] != "empty":
                res["vac"]["already_present_runs"] += 1
            d = digest_obj((cfg, fail, corrupt))
            res["states"].append(d)
            if fail or corrupt or cfg["src"] != "complete":
                res["nontrivial"].add(d)
            res["outcomes"].add(repr((sorted(v[0] for v in viol), info["events"], info["fired"])))
            for sig, detail in viol:
                if sig not in sigs:
                    sigs.add(sig)
                    res["viol"].append((sig, detail, {"cfg": cfg, "fail": list(fail), "corrupt": list(corrupt)}))
    res["outcomes"] = sorted(res["outcomes"])[:50]
    res["nontrivial"] = sorted(res["nontrivial"])
    res["sample"] = {"cfg": cfg, "failure_subsets": 2 ** len(cands), "corrupt_sets": len(corrupt_sets)}
    return res


def replay(case):
    return one_exec(case["cfg"], case["fail"], case["corrupt"])[0]


def configs(tier):
    scen = ["one", "sharing", "twopaths"]
    if tier == "thorough":
        scen += ["three", "subset", "disjoint"]
    for s in scen:
        for shape in ("files", "shallowdir", "closed", "expanded"):
            for src in ("complete", "file-missing", "dir-missing"):
                if src == "dir-missing" and shape == "expanded":
                    continue  # the directory object must be loadable to be expanded
                for dest0 in ("empty", "partial", "complete"):
                    for dest in ("base", "local"):
                        for verify in (False, True):
                            if verify and src != "complete":
                                continue
                            yield {"scenario": s, "shape": shape, "src": src, "dest0": dest0,
                                   "dest": dest, "verify": verify}


def run(ctx):
    ctx.rule = (
        "E3: tree sets x request shape {files, shallow dir, closed, expanded} x source {complete, a file "
        "missing, a directory object missing} x destination {empty, partial, complete} x both destination "
        "classes x every subset of failing uploads; under verify additionally every subset of corrupt source "
        "files (x <= 1 failing upload); non-trivial = a fault, a corrupt source or an incomplete source"
    )
    ctx.bound = {"scenarios": ["one", "sharing", "twopaths"] + (["three", "subset", "disjoint"] if ctx.tier == "thorough" else []),
                 "max_objects": 6}
    ctx.assumptions = [
        "uploads fail before writing anything (OSError EIO)",
        "corrupt sources are protected (0o444) objects whose bytes do not match their name; they are only "
        "introduced under verify=True, as the property's quantifier says",
        "an expanded request needs its directory object to be loadable from the source",
    ]
    ctx.require("faults_fired", "verify_corrupt_runs", "both_sides_missing_runs", "already_present_runs")
    cs = [{"cfg": c} for c in configs(ctx.tier)]
    ctx.run_cases("run_case", cs, chunksize=1, det=4)
