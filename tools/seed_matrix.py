#!/usr/bin/env python3
"""Re-evaluate every kept seeded change against the current checks and write seeded/README.md.

usage: tools/seed_matrix.py [--only name-substring] [--jobs N]
Each seed is evaluated by tools/seed_eval.py (scratch copy of /repo, never /repo itself) against the
check of its own property (plus the extra checks recorded in its meta.json under "also").
"""

import json
import os
import subprocess
import sys
from concurrent.futures import ThreadPoolExecutor

VERIF = os.path.dirname(os.path.dirname(os.path.abspath(__file__)))
SEEDED = os.path.join(VERIF, "seeded")


def evaluate(name):
    d = os.path.join(SEEDED, name)
    meta = json.load(open(os.path.join(d, "meta.json")))
    checks = [meta["property"]] + [c for c in meta.get("also", []) if c != meta["property"]]
    tmp = os.path.join("/dev/shm", f"seedmeta.{name}.json")
    json.dump({"property": meta["property"], "summary": meta.get("summary"), "needs": meta.get("needs"),
               "files": meta.get("files")}, open(tmp, "w"))
    # seed_eval overwrites patch/demo with themselves: evaluate from copies
    p2, d2 = f"/dev/shm/seedpatch.{name}.diff", f"/dev/shm/seeddemo.{name}.py"
    subprocess.check_call(["cp", os.path.join(d, "patch.diff"), p2])
    subprocess.check_call(["cp", os.path.join(d, "demo.py"), d2])
    r = subprocess.run([sys.executable, os.path.join(VERIF, "tools", "seed_eval.py"), name, p2, d2, tmp,
                        "--checks", ",".join(checks)], capture_output=True, text=True)
    for f in (tmp, p2, d2):
        os.unlink(f)
    new = json.load(open(os.path.join(d, "meta.json")))
    if meta.get("also"):
        new["also"] = meta["also"]
    if meta.get("origin"):
        new["origin"] = meta["origin"]
    json.dump(new, open(os.path.join(d, "meta.json"), "w"), indent=1)
    return name, r.stdout.strip().splitlines()


def readme():
    rows = []
    for name in sorted(os.listdir(SEEDED)):
        mp = os.path.join(SEEDED, name, "meta.json")
        if not os.path.exists(mp):
            continue
        m = json.load(open(mp))
        caught = [f"{c}: " + ", ".join(s.split(" ")[0] for s in v["signatures"][:3])
                  for c, v in m.get("checks", {}).items() if v["rc"] == 1]
        missed = [c for c, v in m.get("checks", {}).items() if v["rc"] != 1]
        rows.append((name, m.get("property"), (m.get("summary") or "").replace("|", "/"),
                     (m.get("needs") or "").replace("|", "/"), "; ".join(caught) or "-", ", ".join(missed) or "-"))
    with open(os.path.join(SEEDED, "README.md"), "w") as f:
        f.write("# Seeded changes\n\n"
                "Every directory holds `patch.diff` (applies to /repo at the repository root), `demo.py` (fails with the\n"
                "patch, passes without) and `meta.json` (what it breaks, what it needs to manifest, what was run, which\n"
                "checks report it and with which signatures). `agent-*`/`agent3-*`/`agent4-*`/`agent6-*`/`agent7-*`/`agent8-*`/`agent10-*` were written by independent sub-agents that saw only\n"
                "the property text; `regression-*` are the reverse patches of the `fix:` commits (the original defects).\n"
                "All were confirmed by `tools/seed_eval.py`: the repository's suite passes with the patch (164 passed),\n"
                "the demo exits non-zero with it and zero without it. Regenerate with `tools/seed_matrix.py`.\n\n"
                "| seed | property | change | needs | caught by (signatures) | not caught by |\n|---|---|---|---|---|---|\n")
        for r in rows:
            f.write("| " + " | ".join(str(x) for x in r) + " |\n")
    return rows


def design_section(rows):
    """Rewrite section 11 of DESIGN.md from the seed table."""
    p = os.path.join(VERIF, "DESIGN.md")
    s = open(p).read()
    head = "## 11. Detection evidence"
    i = s.index(head)
    per = {}
    other_only = []
    for name, prop, _summary, _needs, caught, _missed in rows:
        d = per.setdefault(prop, {"n": 0, "caught": 0, "names": []})
        d["n"] += 1
        own = f"{prop}: " in caught
        d["caught"] += 1 if own else 0
        if not own and caught != "-":
            other_only.append(name)
            d["names"].append(f"{name} (reported by {', '.join(sorted({c.split(':')[0] for c in caught.split('; ')}))})")
        if caught == "-":
            d["names"].append(name)
    total = sum(d["n"] for d in per.values())
    tc = sum(d["caught"] for d in per.values())
    out = [head, "",
           f"`seeded/` holds {total} deliberate property-breaking changes, each confirmed by `tools/seed_eval.py` on a scratch",
           "copy of `/repo` (patch applies; the repository's own suite still reports 164 passed; the author's",
           "demonstration fails with the patch and passes without it). `agent-*` (2 per property), `agent3-*`, `agent4-*`, `agent6-*`, `agent7-*`, `agent8-*` and `agent10-*`",
           "(3 per property each) were written by independent sub-agents that were given only the text of one property and",
           "a scratch worktree - nothing from `/verif`; `regression-*` are the reverse patches of the `fix:` commits.",
           f"With the checks as committed, {tc} of {total} are reported (VIOLATION, exit 1) by the quick tier of the check of",
           f"the property they were written against and the other {len(other_only)} by the check of a neighbouring property (named in the",
           "table below and in the wave notes); none is unreported. `seeded/README.md` lists, per seed, the change, what it needs to",
           "manifest and the signatures that report it. Three seeds were dropped because a later `fix:` commit made their",
           "patch harmless or inapplicable (agent7-C05-1 and agent6-C05-3 after `5d184fa`; agent6-C17-1 after `326413d` - the",
           "same change is kept as agent10-C17-1).",
           "",
           "The seeds arrived in eight waves (1-4, 6, 7, 8, 10; waves 5 and 9 were the property-preserving counter-tests) and the checks were strengthened after each; what each miss taught:",
           "",
           "| wave | missed at first | what was added |",
           "|---|---|---|",
           "| 1 | C03 sub-tree lookup by string prefix; C06 directory id of another algorithm expanded; C04 index-level push drops missing objects; C05 process-wide memo of verified objects, directory token keyed by basename; C07 mtime truncated to seconds; C09 unloadable directory not reported when the workspace has it | sibling names sharing a string prefix and bogus prefixes (C03); other-algorithm directory ids (C06); `collect`+`push`/`fetch` part (C04); cache losing an object after it was verified, same-named files in sub-directories (C05); tampering 1 µs away from the recorded mtime (C07); lazy targets whose directory object is missing (C09) |",
           "| 2 | C11 stale index not cleared for a different directory; C14 short-read sources / non-termination; C16 check-then-insert on the state db; C19 unreadable ancestor silently replaced by an empty one; C20 same object mutated in place and stored again | index + vanish + second-request histories (C11); short-read sources and a per-case watchdog in the harness (C14); SQL statement boundaries as scheduling points (C16); ancestor faults in the public merge (C19); `restore` op on the SQLite index (C20) |",
           "| 3 | C01/C02 names zipped with hashes in another order (partially warm state, large files), racy upload staging; C02 backslash names, `_create_dirs` prefix skip; C03 stale trie after overwrite; C04 verify + corrupt shared file; C05 sub-second directory token; C06 twin `<digest>`/`<digest>.dir`, read-only test on the wrong store; C07 inode dropped from the token; C09 kind change without hashes, file-less intermediate directories; C10 single-file target; C12 partially stale index with an orphan directory, prefix skip in the local existence query; C14 integer ratio at the 30 % edge; C15 protect-before-compare and state-before-verify under a verifying transfer; C16 pool results paired by submission order; C17 file-less intermediate directories, storage existence index; C18 storage prefix inside a directory entry, registration order; C19/C03 component-wise sort; C20 metadata digest overriding the hash | the corresponding alphabets / scenarios (see the *As built* notes in section 4) |",
           "| 4 (asked for helper-module changes, cooperating edits that are harmless alone, boundary inputs and multi-step histories) | C01/C02 memoised staging store + reference kept for a known id; `.dir` object not verified by a verifying transfer; C02 `check()` comparing the full id (directory object deleted by the first checkout); C03 state hits re-paired by position; C04 `missing` intersected with the request; C05 same-size same-mtime replacement, token taken at record time instead of scan time; C06 NFC-normalised listing keys, `HashInfo` membership on a legacy store, de-duplication by bare value; C07 two-chunk CRLF text, post-add check skipped for ids that passed the pre-check; C08 inode excluded from `Meta` equality, directory type taken from an empty `HashInfo`; C09 failed directories filtered through a set whose members mutate; C10 memoised link metadata; C11 `obj_name` in `HashInfo` equality; C12 skipped directories indexed; C13 inode serialised + unknown mtime ignored, `lstat` identity for symlinks; C14 cached `hash_value`; C15 directory objects saved inside the per-file-system loop, pre-check only without `check_exists`; C16 module-level read buffer; C17 falsy metadata dropped by `from_dict`, `loaded` flag never persisted; C18 `FileNotFoundError` ignored by the transfer error callback; C19 memoised `load()` + in-place merge | C01 part 2 (workspace renamed / rewritten between a stage-only and a stage+transfer; damaged protected sources under verifying transfers); C02 second round trip from the same store, restaging; C03 partially known hash-state; expanded requests with files missing on both sides (C04), source lacking a listed file (C12); C05 `swapped` mutation and the in-flight part (user edit before each of the call's accesses, for files the checkout leaves alone); C06 twin-algorithm ids ahead of the store's own, legacy-algorithm store, names differing only in normalisation form; C07 legacy two-chunk object, forced verified adds; C08 inode-only variant, empty-`HashInfo` directories; C09 application-installed load-error handler, same outcome demanded; C10 third relink; labelled ids (C11); C13 previous index through its serialised forms, staged symlink; C14 polling `hash_value`; C15 two-file-system and verifying index save; C16 data-read pass; C17 sizes in the directory object, empty file, `persist` op; ENOENT upload failures (C04/C11/C18); harness: per-case process isolation so that library-global memo tables cannot leak between cases, C19 public merges replayed as one session |",
           "| 5 (the opposite test: 60 property-*preserving* refactorings - restructured loops, batching, sorted instead of set order, merged stat calls, renamed private helpers, `executor.map` instead of `imap_unordered`, different temp names; kept under `benign/`) | no check may report them. On the final checks all 60 are silent (`tools/benign_eval.py`: patch applies, suite passes, author's demo passes with and without, the quick tier of the own check and of every check anchored in a touched file exits 0). Two alarms on the way were mine: the hashing-pool stub only offered `imap_unordered`, and a freshly added C01 operation had two oracle errors (section 10) | pool stub offers `map` / `submit` too; C01 corrected |",
           "| 6 (asked for what a small-scope explorer misses: size / count thresholds, non-default arguments, rarely used entry points, environment-dependent branches) | 37 of 60 at first: batches of 512 / 999 / 1000 objects dropping or skipping an element (gc, `_add`, `_do_transfer`, `set_many`, `get_many`, `oids_exist`, `write_db`, index validation pages); files above 1 MiB / 2 MiB (prefix-only hashing, a lone large file never hashed, listings larger than the chunk); paths spelled with a trailing separator or `..` (store, workspace, State root); stores of another algorithm (sha256, sha1, legacy) in gc / merge / transfer / state rows; `roots=`, `ignore=`, `hardlink=True`+`verify`, `check_exists=False`, `read_only` cache, `cache_index` reuse, `get_index` sharing a tmp_dir, explicit `FileStorage` prefix, `index.update` within the same second, two caches / two file systems in one index, dangling workspace links, a remote configured to verify on fetch, `Tree.load(hash_name=)`, rewriting a JSON file over a longer one | a shared bulk alphabet of 1300 tiny objects (C04, C06, C07, C10, C12, C15, C16, C18, C19 20000-entry merge, C20 2500 entries); path-spelling dimension (C05, C06, C10, C16); other-algorithm store kinds (C01 `mig L->G`, C04, C06, C13, C14, C19); C02 `index-prefix` / `index-update` paths and a lone large file; C03 upload builds; C07 verifying transfer of a directory member; C08 `roots` and lazily loaded directories seen through views; C09 special shapes; C11 hard-link adds and index-level fetch; C12 special shapes; C15 three more scenarios; C18 special variants; one genuine defect found and fixed on the way (`435cc42`) |",
           "| 7 (asked for bugs that depend on a special *value* of a name, digest, content or metadata field) | 50 of 59 at first: leading-dot names stripped by `lstrip('./')`, backslashes turned into separators, blanks stripped, NFC normalisation, `..` substring guards, string-prefix instead of component-prefix matches (sibling `data` / `data.bak`, store `dest` / `dest.src`); upper-case or quoted digests folded; the empty listing `[]` and the zero-byte object treated as absent / corrupt; `rstrip('.dir')` eating digests that end in `d`; two objects sharing the fan-out directory; lone CR, NUL after byte 512, CR LF in a plain md5 store, the 30-31 % text ratio, `md5-sha1`; mtimes of 0, before the epoch or differing below the microsecond; permission mode 0466 | one shared special-name tree and a fan-out-prefix pair (`lab.SPECIAL_TREE`, `lab.TWINS`) used by C02, C04, C11, C12, C18; special names in the alphabets of C06, C09, C10, C16, C17, C19, C20; upper-case / quoted values (C06, C07, C08, C19, C20); empty directory objects (C06, C09, C16, C17) and the zero-byte object (C05, C12, C15); delicate legacy contents (C01, C13, C14); half-microsecond clock steps (C02, C03, C07, C13), epoch and pre-epoch mtimes (C05, C10, C13); mode 0466 and unprotected-but-intact objects (C07, C18). **Two genuine defects of the unchanged library** surfaced from sub-agents' side remarks and were repaired (`5d184fa`, `326413d`, section 9). Not reported by the quick tier of their own check: C11-3 (listing keys with `.`, empty or `..` components - no file system produces them), C13-1 (needs a crafted (mtime, size) pair whose decimal digits concatenate identically), C13-2 (needs depth 4: thorough tier), C15-2 / C15-3 / C16-1 (reported by C13 / C01 / C13+C03 instead: the defect is in hashing, not in crash or schedule handling); one seed (C05-1) stopped breaking the property after fix `5d184fa` and was dropped |",
           "| 8 (asked for changes that only show on ERROR, CLEAN-UP and RECOVERY paths: a failure or kill, then a retry) | 19 of 30 at first: `protect` before the integrity comparison (in `check()` and in `add()`), verification gated on `transferred > 0`, an `except` clause broadened or narrowed (`_cache_check`, `_remove`, `protect`, `get_mtime_and_size`, `_load_from_storage`), state rows / link records written on the failure path, a failed directory load remembered as loaded, one tolerated `rmdir` failure ending the whole loop, `Link._created_dirs` shared between calls, the two index transactions of `update()` swapped, `FileNotFoundError` uploads not counted as failed, the missing-on-both-sides guard made unreachable | a fault-injecting local file system (`lab.RmFaultFS`: removals of chosen paths refused, uploads that write half of the bytes in place and fail) and *fault, then the same call again* sequences: C05 (refused removal of the corrupt cache object + retry, clean-up right after a refusal, file-to-file target, entries that cannot be examined - ELOOP), C07 fault part (9 x 9 queries around a refused removal; half-written uploads), C09 (directory objects damaged in four more ways, retry on the same index object once the object is back, a file the workspace index does not know in a directory that is to go), C10 recovery part (refused workspace removals, target object missing then restored with the partial workspace kept or wiped, cache that refuses chmod), C11 destination with a hash-state database under verify, C12 ENOENT faults and process kills between the index transactions (BFS operations + a fourth initial state), C15 source store holding a half-written leftover, C18 failed fetch round from a verifying remote with damaged objects. **Two more genuine defects of the unchanged library** were found while writing these (C09, `8ecdada` and `9ec69a2`, section 9). Not reported by their own check: C04-3 (needs the destination emptied behind the index - outside C04's quantifier; reported by C11 and C12), C16-1 / C16-3 (no interleaving involved; reported by C07+C11 / C04) |",
           "| 9 (the opposite test again, for the new fault-injecting parts: 30 property-*preserving* changes of error, clean-up and recovery paths - other exception classes and messages, earlier clean-up of temp files, richer error objects through the callbacks, one transaction instead of two, a retried idempotent step, directory objects loaded before the first upload; kept under `benign/benign9-*`) | no check may report them: all 30 are silent (own check + every check anchored in a touched file, quick tier; `benign/README.md`). One author's demonstration, a timing-sensitive multi-process workload, failed once on the *unchanged* library while the machine was four times oversubscribed and passes when run alone - the checks were silent in both runs | - |",
           "| 10 (asked for STATE THAT OUTLIVES ONE CALL: on-disk databases that are reopened, objects used twice, a second run with other options on what a first run left, process-wide memo tables; C01 C02 C03 C06 C08 C13 C14 C17 C19 C20) | 20 of 30 at first: a class-level identity cache shared by all SQLite-backed indexes, `__delitem__` / `__setitem__` of that cache skipping the invalidation or the write, `loaded` persisted after the commit, `Tree.add` not invalidating the memoised trie, `load()` behind an `lru_cache`, `Tree.digest` writing to one process-wide scratch path, a module-level set of already expanded directories / a remembered store listing / a cached store handle in gc, one shared blake3 hasher, a memoised `hash_value`, state rows of one algorithm answered for another, `write_db` inserting only absent keys, `Link._created_dirs` shared between calls, `StorageMapping.__getitem__` returning the stored object, `_save_dir_entry` trusting the id of the first save, `get_many` writing into the caller's mapping | harness: a violation that does not reproduce as a single operation is re-run as its whole *enclosing case* (the sequence of operations one worker process performed) in a fresh child - if the signature comes back it is reported with that case as the replay artefact (state carried over between independent operations); before, such a run ended as a harness error. Checks: C06 sessions (two gc calls of one process on one store, second through the same / a fresh / a `get_odb()` handle with other configuration, external changes in between); C20 two SQLite-backed indexes of one process holding the same keys, a key-value database written twice, lookups of absent keys; C08 both sides SQLite-backed (one turned from the other's content by deletes and overwrites in one session, one reopened); C14 independent and interleaved streams of one algorithm incl. blake3, CR LF texts in the state algorithm pairs; C19 `ours` derived from the loaded ancestor object, a merge result stored after further merges; C03 builds of one directory under md5 and the legacy algorithm sharing a state (tree `text3`); C02 `index-resave` path and a round trip into a wiped location; C13 a kept (never filled) `infos` mapping; C17 further storage prefixes registered after the root. Not reported by their own check: C02-2 / C02-3 / C17-2 / C01-1 / C08-2 (reported by C11+C12 / C08 / C03 / C20 / C17: the state lives in the index / tree / SQLite layer those checks drive) |",
           "",
           "Two of the sub-agents' remarks about the *unchanged* library led to repairs (section 9): the `hash_file` TOCTOU",
           "(found when a wave-2 seed made me inject writes inside library calls) and the dry-run removal of legacy",
           "`.unpacked` directories.",
           "",
           "| property | seeds | reported by its check | reported only by another check |",
           "|---|---|---|---|"]
    for prop in sorted(per):
        d = per[prop]
        out.append(f"| {prop} | {d['n']} | {d['caught']} | {', '.join(d['names']) or '-'} |")
    out.append("")
    open(p, "w").write(s[:i] + "\n".join(out) + "\n")


def main():
    args = sys.argv[1:]
    only = args[args.index("--only") + 1] if "--only" in args else None
    jobs = int(args[args.index("--jobs") + 1]) if "--jobs" in args else 1
    if "--readme-only" not in args:
        names = [n for n in sorted(os.listdir(SEEDED)) if os.path.isdir(os.path.join(SEEDED, n)) and (not only or only in n)]
        with ThreadPoolExecutor(jobs) as ex:
            for name, out in ex.map(evaluate, names):
                print("\n".join(l[:200] for l in out[:6]), flush=True)
    rows = readme()
    design_section(rows)
    miss = [r for r in rows if r[4] == "-"]
    print(f"{len(rows)} seeds, {len(rows) - len(miss)} caught by their own property's check")
    for r in miss:
        print("  MISSED", r[0])


if __name__ == "__main__":
    main()
