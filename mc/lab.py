"""Shared driver helpers: alphabets, stores, staging."""

import errno
import os

from . import ref
from .world import install_seams

install_seams()

from dvc_objects.fs.local import LocalFileSystem  # noqa: E402

from dvc_data.hashfile.db import HashFileDB  # noqa: E402
from dvc_data.hashfile.db.local import LocalHashFileDB  # noqa: E402
from dvc_data.hashfile.hash_info import HashInfo  # noqa: E402

LFS = LocalFileSystem()

# content alphabet (names are what goes into JSON cases)
CONTENTS = {
    "e": b"",
    "x": b"x",
    "y": b"y",
    "z": b"zz",
    "w": b"www",
    "crlf": b"x\r\ny\r\n",
    "lf": b"x\ny\n",
    "bin": b"\x00\xff",
    "v": b"vvvv",
}
MD5 = {k: ref.md5(v) for k, v in CONTENTS.items()}

# special names: each is an ordinary file name for the file system, but looks like something code may treat
# specially (leading dots, "..", a backslash, the suffixes the stores use, surrounding blanks, two Unicode
# normalisation forms of one name, names that extend a sibling's name); every file has its own content
SPECIAL_NAMES = [".hidden", "hidden", "a\\b", "a/b", "..notes", "r..f", "x.dir", ".dir", "a.tmp", "k", "k ", " k",
                 "caf\u00e9", "cafe\u0301", "Q", "q", "data/x", "data.bak/y", "database"]
SPECIAL = {f"sp{i}": b"special-%d" % i for i in range(len(SPECIAL_NAMES))}
SPECIAL_MD5 = {k: ref.md5(v) for k, v in SPECIAL.items()}
SPECIAL_TREE = {name: f"sp{i}" for i, name in enumerate(SPECIAL_NAMES)}


def _same_prefix_pair():
    """Two small contents whose md5 digests share the two-character fan-out prefix (but differ)."""
    seen = {}
    i = 0
    while True:
        data = b"prefix-twin-%d" % i
        h = ref.md5(data)
        if h[:2] in seen:
            return seen[h[:2]], data
        seen[h[:2]] = data
        i += 1


_P1, _P2 = _same_prefix_pair()
TWINS = {"tw1": _P1, "tw2": _P2}
TWINS_MD5 = {k: ref.md5(v) for k, v in TWINS.items()}

# bulk alphabet: more tiny, distinct objects than any paging / batching constant of the code base
# (999 SQL parameters, 1000-object listing pages), and not a multiple of a power of two or of 1000
BULK_N = 1300
BULK = {f"bulk{i}": b"bulk-%d" % i for i in range(BULK_N)}
BULK_MD5 = {k: ref.md5(v) for k, v in BULK.items()}


def files_of(spec):
    """spec: list of [relpath, content-name] or [relpath, content-name, exec]."""
    out = {}
    for ent in spec:
        rel, c = ent[0], ent[1]
        ex = bool(ent[2]) if len(ent) > 2 else False
        out[rel] = (CONTENTS[c], ex)
    return out


def listing_of(spec, name="md5"):
    return {ent[0]: ref.digest(name, CONTENTS[ent[1]]) for ent in spec}


class RmFaultFS(LocalFileSystem):
    """A local file system with two injectable faults: removing a path in `deny` raises PermissionError (an
    immutable file, a directory that belongs to someone else; `denied` counts refusals), and - `half_put` - an
    upload that is not atomic and breaks half way."""

    deny = frozenset()
    denied = 0
    half_put = False   # put_file writes the first half of the data in place at the final path, then fails (EIO)
    half_puts = 0

    def put_file(self, from_file, to_info, *args, **kwargs):
        if not self.half_put:
            return super().put_file(from_file, to_info, *args, **kwargs)
        self.half_puts += 1
        os.makedirs(os.path.dirname(to_info), exist_ok=True)
        with open(from_file, "rb") as src:
            data = src.read()
        if os.path.lexists(to_info):
            os.chmod(to_info, 0o644)
        with open(to_info, "wb") as dst:
            dst.write(data[: len(data) // 2])
        raise OSError(errno.EIO, "injected: connection lost while uploading", to_info)

    def _chk(self, path):
        for q in [path] if isinstance(path, (str, bytes, os.PathLike)) else list(path):
            if os.fspath(q) in self.deny:
                self.denied += 1
                raise PermissionError(errno.EPERM, "injected: operation not permitted", os.fspath(q))

    def rm_file(self, path):
        self._chk(path)
        return super().rm_file(path)

    def rm(self, path, recursive=False, maxdepth=None):
        self._chk(path)
        return super().rm(path, recursive=recursive, maxdepth=maxdepth)

    remove = rm


def make_odb(kind, path, fs=None, **config):
    os.makedirs(path, exist_ok=True)
    fs = LFS if fs is None else fs
    if kind == "local":
        return LocalHashFileDB(fs, path, **config)
    if kind == "base":
        return HashFileDB(fs, path, **config)
    raise ValueError(kind)


def put_raw(odb, oid, data, protect=None):
    """Place an object in a store directly (the store content is an *input*)."""
    p = odb.oid_to_path(oid)
    os.makedirs(os.path.dirname(p), exist_ok=True)
    with open(p, "wb") as f:
        f.write(data)
    if protect is None:
        protect = isinstance(odb, LocalHashFileDB)
    if protect:
        os.chmod(p, 0o444)
    return p


def hi(value, name="md5"):
    return HashInfo(name, value)


def stage(odb, path, name="md5", upload=False, **kw):
    from dvc_data.hashfile.build import build

    return build(odb, path, LFS, name, upload=upload, **kw)


def stage_and_transfer(odb, path, name="md5", upload=False, shallow=False, **kw):
    from dvc_data.hashfile.transfer import transfer

    staging, meta, obj = stage(odb, path, name=name, upload=upload)
    res = transfer(staging, odb, {obj.hash_info}, shallow=shallow, hardlink=False, **kw)
    return staging, meta, obj, res
