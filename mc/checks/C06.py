"""C06 gc removes exactly the unused objects and never a used one.

E1: every store content (subset of an object universe with two/three directory
objects sharing files) x every used set (subset incl. an absent id and an id of
another hash algorithm) x {shallow, expand} x {dry, real} x store class
(+ read-only refusal), compared with a set-difference reference.
"""

CASE_TIMEOUT = 600  # seconds per pool task (the unchanged tree needs a small fraction of this)

import itertools
import os

from .. import ref
from ..lab import CONTENTS, MD5, hi, make_odb, put_raw
from ..world import World, digest_obj, objects_only, store_snapshot

# universe ------------------------------------------------------------------
A = {"p": MD5["x"], "q": MD5["y"]}
# two names that differ only in Unicode normalisation form, and two that differ only in a trailing blank
B = {"caf\u00e9": MD5["x"], "cafe\u0301": MD5["z"], "k": MD5["y"], "k ": MD5["x"]}
C = {"s/t": MD5["w"], "p": MD5["x"]}
TREES = {"A": A, "B": B, "C": C}
TREE_BYTES = {k: ref.tree_bytes(v) for k, v in TREES.items()}
TREE_OID = {k: ref.tree_oid(v) for k, v in TREES.items()}
FILES = {n: MD5[n] for n in ("x", "y", "z", "w")}
# a plain file whose bytes are exactly A's listing: its oid is A's digest without the '.dir' suffix
FILES["Araw"] = TREE_OID["A"][: -len(".dir")]
ABSENT = ref.md5(b"absent-object")


def universe(tier):
    objs = ["A", "B", "x", "y", "z", "Araw"]
    # "twin:" = the same value named by the other of md5 / md5-dos2unix; listed before the store's own ids
    used = ["twin:x", "twin:A", "A", "B", "x", "absent", "sha256:y", "Araw"]
    if tier == "thorough":
        objs = ["A", "B", "C", "x", "y", "z", "w", "Araw"]
        used = ["twin:x", "twin:A", "A", "B", "C", "x", "w", "absent", "sha256:y", "absentdir", "Araw"]
    return objs, used


def oid_of(name):
    if name in TREES:
        return TREE_OID[name]
    return FILES[name]


def bytes_of(name, alg="md5"):
    if name in TREES or name == "Araw":
        t = TREES["A" if name == "Araw" else name]
        # (a store of another algorithm keys its listings by that algorithm's name; the object's own name
        # is only a label for gc, which never re-hashes)
        return TREE_BYTES["A" if name == "Araw" else name] if alg in ("md5", "md5-dos2unix") else ref.tree_bytes(t, alg)
    return CONTENTS[name]


def used_infos(names, store_alg="md5"):
    out = []
    for n in names:
        if n == "absent":
            out.append(hi(ABSENT, store_alg))
        elif n == "absentdir":
            out.append(hi(ref.tree_oid({"k": ABSENT}), store_alg))
        elif ":" in n:
            alg, what = n.split(":")
            if alg == "twin":
                alg = "md5-dos2unix" if store_alg == "md5" else "md5"
            if alg == store_alg:
                alg = "sha1"   # always an algorithm other than the store's
            v = ref.tree_oid({"k": ABSENT}) if what == "absentdir" else oid_of(what)
            out.append(hi(v, alg))
        else:
            out.append(hi(oid_of(n), store_alg))
    return out


def subsets(xs):
    for r in range(len(xs) + 1):
        yield from itertools.combinations(xs, r)


def cases(tier):
    objs, used = universe(tier)
    for kind in ("local", "base", "legacy", "sha256"):
        for store in subsets(objs):
            yield {"kind": kind, "store": list(store), "tier": tier}


UPPER = MD5["v"].upper()            # an object whose name is spelled in upper-case hex
EMPTYDIR = ref.tree_oid({})         # the directory object of an empty directory: its listing is []


def run_one(kind, store, used, shallow, dry, cachemode, read_only=False, cache_ro=False, unpacked=False,
            pathform="plain", bulk=False, odd=False):
    """One gc call on a freshly built store; returns (violations, outcome)."""
    from dvc_objects.errors import ObjectDBPermissionError

    from dvc_data.hashfile.gc import gc

    viol = []
    with World() as w:
        store_alg = "md5"
        if kind == "legacy":
            # a LocalHashFileDB of the legacy algorithm (all contents of the alphabet are binary / LF-only:
            # both algorithms give them the same value)
            store_alg = "md5-dos2unix"
            odb = make_odb("local", w.p("store"), read_only=read_only, hash_name="md5-dos2unix")
        elif kind == "sha256":
            store_alg = "sha256"
            odb = make_odb("local", w.p("store"), read_only=read_only, hash_name="sha256")
        else:
            spath = w.p("store")
            if pathform == "trail":
                spath = spath + os.sep
            elif pathform == "dotdot":
                os.makedirs(w.p("elsewhere"), exist_ok=True)
                spath = os.path.join(w.p("elsewhere"), "..", "store")
            elif pathform == "braces":
                # a directory name with characters that mean something to str.format
                spath = os.path.join(w.p("pr{0}ject {x}"), "store")
            odb = make_odb(kind, spath, read_only=read_only)
        for n in store:
            put_raw(odb, oid_of(n), bytes_of(n, store_alg))
        cache_odb = None
        if cachemode == "cache":
            cache_odb = make_odb("local", w.p("cache"), read_only=cache_ro, hash_name=store_alg)
            for n in TREES:
                put_raw(cache_odb, oid_of(n), bytes_of(n, store_alg))
        if unpacked:
            # legacy artefact next to a directory object: <oid>.unpacked/ (not an object)
            for n in store:
                if n in TREES:
                    d = odb.oid_to_path(oid_of(n)) + ".unpacked"
                    os.makedirs(d, exist_ok=True)
                    with open(os.path.join(d, "legacy"), "wb") as fh:
                        fh.write(b"legacy")
        if odd:
            # an upper-case object name and an empty directory object, both in use
            put_raw(odb, UPPER, CONTENTS["v"])
            put_raw(odb, EMPTYDIR, ref.tree_bytes({}))
        if bulk:
            from ..lab import BULK, BULK_MD5

            for c, data in BULK.items():
                put_raw(odb, BULK_MD5[c], data)
        snap_root = odb.path if pathform == "braces" else w.p("store")
        full_before = store_snapshot(snap_root)
        before = objects_only(full_before)
        store_oids = set(before)

        # reference
        protected = {UPPER, EMPTYDIR} if odd else set()
        loadable = True
        for n in used:
            if ":" in n:
                continue  # other algorithm: protects nothing, is never expanded or loaded
            if n == "absent":
                protected.add(ABSENT)
                continue
            if n == "absentdir":
                protected.add(ref.tree_oid({"k": ABSENT}))
                if not shallow:
                    loadable = False
                continue
            protected.add(oid_of(n))
            if n in TREES and not shallow:
                if cachemode == "cache" or n in store:
                    protected.update(TREES[n].values())
                else:
                    loadable = False
        expect_removed = store_oids - protected

        exc = None
        ret = None
        try:
            ret = gc(
                odb,
                used_infos(used, store_alg) + ([hi(UPPER, store_alg), hi(EMPTYDIR, store_alg)] if odd else []),
                cache_odb=cache_odb,
                shallow=shallow,
                dry=dry,
            )
        except BaseException as e:  # noqa: BLE001
            exc = e
        full_after = store_snapshot(snap_root)
        after = objects_only(full_after)
        if dry and exc is None and full_after != full_before:
            gone = sorted(str(k) for k in set(full_before) - set(full_after))
            viol.append(("dry-run-removed-something", f"{gone[:4]}"))
        removed = store_oids - set(after)
        changed = {o for o in after if o in before and after[o][0] != before[o][0]}
        added = set(after) - store_oids

        if read_only:
            if not isinstance(exc, ObjectDBPermissionError):
                viol.append(("readonly-not-refused", f"exc={exc!r} ret={ret!r}"))
            if removed or changed or added:
                viol.append(("readonly-store-mutated", f"removed={sorted(removed)}"))
            return viol, ("ro", type(exc).__name__)

        if removed & protected:
            viol.append(
                (
                    "used-object-removed",
                    f"removed used {sorted(removed & protected)} shallow={shallow}",
                )
            )
        if changed or added:
            viol.append(("store-content-changed", f"{sorted(changed)} {sorted(added)}"))
        if exc is not None:
            if not loadable and isinstance(exc, FileNotFoundError):
                # a used directory object that cannot be loaded from anywhere:
                # expansion is undefined; the claim is only that nothing is lost
                if removed:
                    viol.append(("unloadable-used-dir-but-removed", str(sorted(removed))))
                return viol, ("unloadable", "FileNotFoundError")
            sig = f"gc-raises-{type(exc).__name__}"
            if not shallow:
                sig = f"expand-mode-raises-{type(exc).__name__}"
            viol.append((sig, f"{exc!r}; nothing may be removed: removed={sorted(removed)}"))
            return viol, ("exc", type(exc).__name__)
        if not loadable:
            # gc did not need to load the missing directory? it must have raised
            # or treated it as protecting nothing; only safety is demanded here
            return viol, ("unloadable-ok", len(removed))
        if dry:
            if removed:
                viol.append(("dry-run-removed", str(sorted(removed))))
        else:
            if removed != expect_removed:
                if expect_removed - removed:
                    viol.append(
                        (
                            "unused-object-kept",
                            f"kept {sorted(expect_removed - removed)} store={store} used={used}",
                        )
                    )
                if removed - expect_removed - protected:
                    viol.append(("extra-removed", str(sorted(removed - expect_removed))))
        if ret != len(expect_removed):
            viol.append(
                (
                    "wrong-count",
                    f"returned {ret}, expected {len(expect_removed)} dry={dry}",
                )
            )
        return viol, ("ok", len(removed), ret)


# ---- sessions: several gc calls of one process on one store -------------------------------------------

SESSION_USED = [[], ["A"], ["A", "x"], ["B"]]
BETWEEN = ["nothing", "second-handle-adds-w", "add_bytes-w", "second-handle-removes-y"]
HANDLES = ["same-object", "fresh-object", "get_odb"]


def run_session(cfg):
    """cfg: kind (local/base), handle, calls [[used, shallow, dry, alg, read_only], ...], between [...].

    One process, one store directory holding the quick universe; every call is judged against the store as it
    is right before that call.  `alg` is the algorithm the handle is configured with and the used ids are named
    by (md5 / md5-dos2unix: the contents of the alphabet have the same value under both)."""
    from dvc_objects.errors import ObjectDBPermissionError

    from dvc_data.hashfile.db import get_odb
    from dvc_data.hashfile.gc import gc

    from ..lab import LFS

    viol = []
    outcomes = []
    with World() as w:
        path = w.p("store")
        seed_odb = make_odb(cfg["kind"], path)
        for n in ("A", "B", "x", "y", "z", "Araw"):
            put_raw(seed_odb, oid_of(n), bytes_of(n))
        held = None
        for i, (used, shallow, dry, alg, ro) in enumerate(cfg["calls"]):
            if i:
                b = cfg["between"][i - 1]
                other = make_odb(cfg["kind"], path)
                if b == "second-handle-adds-w":
                    put_raw(other, FILES["w"], CONTENTS["w"])
                elif b == "add_bytes-w" and held is not None:
                    held.add_bytes(FILES["w"], CONTENTS["w"])
                elif b == "second-handle-removes-y":
                    py = other.oid_to_path(FILES["y"])
                    if os.path.exists(py):
                        os.chmod(py, 0o644)
                        os.unlink(py)
            kw = {"hash_name": alg, "read_only": ro}
            if cfg["handle"] == "same-object" and held is not None:
                odb = held
            elif cfg["handle"] == "get_odb" and cfg["kind"] == "local":
                odb = get_odb(LFS, path, **kw)
            else:
                odb = make_odb(cfg["kind"], path, **kw)
            held = odb
            before = objects_only(store_snapshot(path))
            cur = set(before)
            protected = set()
            loadable = True
            for n in used:
                protected.add(oid_of(n))
                if n in TREES and not shallow:
                    if oid_of(n) in cur:
                        protected.update(TREES[n].values())
                    else:
                        loadable = False
            exc = None
            ret = None
            try:
                ret = gc(odb, [hi(oid_of(n), alg) for n in used], shallow=shallow, dry=dry)
            except BaseException as e:  # noqa: BLE001
                exc = e
            after = objects_only(store_snapshot(path))
            removed = cur - set(after)
            where = f"call {i} {(used, shallow, dry, alg, ro)} of {cfg}"
            if ro:
                if not isinstance(exc, ObjectDBPermissionError):
                    viol.append(("readonly-not-refused", f"exc={exc!r} ret={ret!r} at {where}"))
                if after != before:
                    viol.append(("readonly-store-mutated", where))
                outcomes.append("ro")
                continue
            if removed & protected:
                viol.append(("used-object-removed", f"{sorted(removed & protected)} at {where}"))
            if set(after) - cur or any(after[o][0] != before[o][0] for o in after if o in before):
                viol.append(("store-content-changed", where))
            if exc is not None:
                if not loadable and isinstance(exc, FileNotFoundError):
                    if removed:
                        viol.append(("unloadable-used-dir-but-removed", where))
                    outcomes.append("unloadable")
                    continue
                viol.append((f"gc-raises-{type(exc).__name__}", f"{exc!r} at {where}"))
                outcomes.append("exc")
                continue
            if not loadable:
                outcomes.append("unloadable-ok")
                continue
            expect = cur - protected
            if dry and removed:
                viol.append(("dry-run-removed", f"{sorted(removed)} at {where}"))
            if not dry and removed != expect:
                if expect - removed:
                    viol.append(("unused-object-kept", f"{sorted(expect - removed)} at {where}"))
                if removed - expect - protected:
                    viol.append(("extra-removed", f"{sorted(removed - expect)} at {where}"))
            if ret != len(expect):
                viol.append(("wrong-count", f"returned {ret}, expected {len(expect)} at {where}"))
            outcomes.append(("ok", len(removed), ret))
    return viol, outcomes


def session_cfgs(kind, handle, first):
    out = []
    algs = ["md5"] if handle == "same-object" or kind == "base" else ["md5", "md5-dos2unix"]
    for used2 in SESSION_USED:
        for shallow2 in (True, False):
            for dry2 in (False, True):
                for alg2 in algs:
                    for ro2 in ((False, True) if handle != "same-object" and not dry2 and shallow2 else (False,)):
                        for b in BETWEEN:
                            if b == "add_bytes-w" and handle != "same-object":
                                continue
                            out.append({"kind": kind, "handle": handle, "between": [b],
                                        "calls": [list(first) + ["md5", False], [used2, shallow2, dry2, alg2, ro2]]})
    return out


def session_case(case):
    res = {"n": 0, "trans": 0, "states": set(), "outcomes": set(), "nontrivial": set(), "viol": [],
           "vac": {"sessions": 0, "second_call_removed_something": 0}}
    sigs = set()
    for cfg in session_cfgs(case["kind"], case["handle"], case["first"]):
        viol, outcomes = run_session(cfg)
        res["n"] += 1
        res["trans"] += len(cfg["calls"])
        res["vac"]["sessions"] += 1
        if isinstance(outcomes[-1], tuple) and outcomes[-1][1]:
            res["vac"]["second_call_removed_something"] += 1
        d = digest_obj(cfg)
        res["states"].add(d)
        res["nontrivial"].add(d)
        res["outcomes"].add(repr(outcomes))
        for sig, detail in viol:
            sig = f"{sig}/session"
            if sig not in sigs:
                sigs.add(sig)
                res["viol"].append((sig, detail, dict(cfg, part="session")))
    res["states"] = sorted(res["states"])
    res["outcomes"] = sorted(res["outcomes"])[:40]
    res["nontrivial"] = sorted(res["nontrivial"])
    return res


def run_case(case):
    """All used-sets x modes for one (class, store content)."""
    if case.get("part") == "session":
        return session_case(case)
    tier = case["tier"]
    _, used_u = universe(tier)
    res = {"n": 0, "trans": 0, "states": set(), "outcomes": set(), "nontrivial": set(),
           "viol": [], "vac": {"expanded_dir_protects_file": 0, "removed_something": 0}}
    store = case["store"]
    for used in subsets(used_u):
        for shallow in (True, False):
            for dry in (False, True):
                cms = ("self", "cache") if not shallow else ("self",)
                for cm in cms:
                    sub = {"kind": case["kind"], "store": store, "used": list(used),
                           "shallow": shallow, "dry": dry, "cachemode": cm, "ro": False}
                    viol, outcome = run_one(case["kind"], store, list(used), shallow, dry, cm)
                    res["n"] += 1
                    res["trans"] += 1
                    d = digest_obj((store, used))
                    res["states"].add(d)
                    res["outcomes"].add(repr(outcome))
                    if len(store) >= 2 and used and any(n in TREES for n in store):
                        res["nontrivial"].add(d)
                    if not shallow and any(n in TREES and (n in store or cm == "cache") for n in used):
                        res["vac"]["expanded_dir_protects_file"] += 1
                    if outcome[0] == "ok" and outcome[1]:
                        res["vac"]["removed_something"] += 1
                    for sig, detail in viol:
                        res["viol"].append((sig, detail, sub))
    # legacy '.unpacked' directories next to directory objects: a dry run must leave them alone too
    if any(n in TREES for n in store) and case["kind"] == "local":
        for used in ([], ["A"], ["B"]):
            for dry in (True, False):
                sub = {"kind": case["kind"], "store": store, "used": used, "shallow": True, "dry": dry,
                       "cachemode": "self", "ro": False, "unpacked": True}
                viol, outcome = run_one(case["kind"], store, used, True, dry, "self", unpacked=True)
                res["n"] += 1
                res["trans"] += 1
                res["outcomes"].add(repr(outcome))
                for sig, detail in viol:
                    res["viol"].append((sig + "/unpacked-dir", detail, sub))
    # the store path spelled with a trailing separator / through '..', and 1300 extra unused objects
    if len(store) == len(universe(tier)[0]) and case["kind"] in ("local", "base"):
        extra = [("trail", False, False), ("dotdot", False, False), ("braces", False, False), ("plain", True, False),
                 ("plain", False, True)]
        for pathform, bulk, odd in extra:
            for used in ([], ["A"], ["A", "x"]):
                for shallow in (True, False):
                    for dry in (False, True):
                        sub = {"kind": case["kind"], "store": store, "used": used, "shallow": shallow, "dry": dry,
                               "cachemode": "self", "ro": False, "pathform": pathform, "bulk": bulk, "odd": odd}
                        viol, outcome = run_one(case["kind"], store, used, shallow, dry, "self",
                                                pathform=pathform, bulk=bulk, odd=odd)
                        res["n"] += 1
                        res["trans"] += 1
                        res["vac"]["path_spelling_or_bulk_runs"] = res["vac"].get("path_spelling_or_bulk_runs", 0) + 1
                        res["outcomes"].add(repr(outcome))
                        for sig, detail in viol:
                            res["viol"].append((sig + ("/bulk" if bulk else "/odd-names" if odd else f"/store-path-{pathform}"), detail, sub))
    # read-only refusal, once per store content (also with a separate, writable cache_odb), and the
    # converse: a writable store with a read-only cache_odb is collected normally
    for dry in (False, True):
        for cm, ro, cro in (("self", True, False), ("cache", True, False), ("cache", False, True)):
            used0 = ["A"] if cm == "cache" else []
            sub = {"kind": case["kind"], "store": store, "used": used0, "shallow": cm != "cache",
                   "dry": dry, "cachemode": cm, "ro": ro, "cache_ro": cro}
            viol, outcome = run_one(case["kind"], store, used0, cm != "cache", dry, cm, read_only=ro, cache_ro=cro)
            res["n"] += 1
            res["trans"] += 1
            res["outcomes"].add(repr(outcome))
            for sig, detail in viol:
                res["viol"].append((sig + ("/read-only-cache_odb" if cro else ""), detail, sub))
    res["states"] = sorted(res["states"])
    res["outcomes"] = sorted(res["outcomes"])
    res["nontrivial"] = sorted(res["nontrivial"])
    res["sample"] = {"class": case["kind"], "store": store, "used_sets": 2 ** len(used_u),
                     "modes": "shallow/expand x dry/real x cache_odb"}
    return res


def replay(case):
    if case.get("part") == "session":
        return [(f"{s_}/session", d_) for s_, d_ in run_session({k: v for k, v in case.items() if k != "part"})[0]]
    viol, _ = run_one(case["kind"], case["store"], case["used"], case["shallow"],
                      case["dry"], case["cachemode"], read_only=case.get("ro", False),
                      cache_ro=case.get("cache_ro", False), unpacked=case.get("unpacked", False),
                      pathform=case.get("pathform", "plain"), bulk=case.get("bulk", False), odd=case.get("odd", False))
    if case.get("bulk"):
        viol = [(s_ + "/bulk", d) for s_, d in viol]
    elif case.get("odd"):
        viol = [(s_ + "/odd-names", d) for s_, d in viol]
    elif case.get("pathform", "plain") != "plain":
        viol = [(s_ + f"/store-path-{case['pathform']}", d) for s_, d in viol]
    if case.get("unpacked"):
        viol = [(s_ + "/unpacked-dir", d) for s_, d in viol]
    if case.get("cache_ro"):
        viol = [(s_ + "/read-only-cache_odb", d) for s_, d in viol]
    return viol


def run(ctx):
    objs, used = universe(ctx.tier)
    ctx.rule = (
        "E1 product: every subset of the object universe as store content x every "
        "subset of the used universe x {shallow,expand(self|cache_odb)} x {dry,real} x "
        "{LocalHashFileDB,HashFileDB,LocalHashFileDB of the legacy md5-dos2unix algorithm}, plus read-only refusal; "
        "the used universe lists ids of the twin algorithm (same value, md5 <-> md5-dos2unix) before the store's own; "
        "tree B lists two names that differ only in Unicode normalisation form; sessions: two gc calls of one process on one "
        "store (4 used sets x shallow/expand x dry/real each; the second through the same store object, a fresh one or "
        "get_odb(), configured md5 / md5-dos2unix / read-only; between them nothing, an object added through a second "
        "handle / add_bytes, an object removed through a second handle), each call judged against the store as it is "
        "right before it; non-trivial = store has "
        ">=2 objects incl. a directory object and the used set is non-empty"
    )
    ctx.bound = {"objects": objs, "used_universe": used,
                 "trees": {k: sorted(v) for k, v in TREES.items()}}
    ctx.assumptions = [
        "store contents are placed directly on disk (they are inputs, not under test)",
        "a used directory object that is loadable from nowhere makes expansion "
        "undefined: only 'nothing is removed' is demanded then",
    ]
    ctx.require("expanded_dir_protects_file", "removed_something", "path_spelling_or_bulk_runs", "sessions",
                "second_call_removed_something")
    cs = list(cases(ctx.tier))
    for kind in ("local", "base"):
        for handle in HANDLES:
            if handle == "get_odb" and kind != "local":
                continue
            for used1 in SESSION_USED:
                for shallow1 in (True, False):
                    for dry1 in (True, False):
                        cs.append({"part": "session", "kind": kind, "handle": handle, "first": [used1, shallow1, dry1]})
    ctx.run_cases("run_case", cs, chunksize=1, det=4)
