"""E5 cooperative scheduler with CHESS-style iterative preemption bounding.

Writers are real threads (sharing Python objects) or forked processes (sharing
only the disk).  Every file-system event on a *shared* path (audit hook), and
every wrapped stat helper call on a shared path, is a scheduling point: the
writer parks and the explorer decides who runs next.  Between points exactly
one writer runs, so a schedule (list of choices) replays deterministically.
"""

import json
import os
import sys
import threading
import traceback

_EVENTS = {"open", "os.rename", "os.chmod", "os.link", "os.symlink", "os.remove", "os.mkdir",
           "os.rmdir", "os.utime", "shutil.copyfile", "os.truncate", "os.scandir", "os.listdir"}

_ACTIVE = {"sched": None, "proc": None}


def _label(event, args, shared):
    """Return a label if the event touches a shared path, else None."""
    try:
        paths = [a for a in args[:2] if isinstance(a, str)]
    except Exception:  # noqa: BLE001
        return None
    hit = None
    for p in paths:
        for s in shared:
            if p.startswith(s):
                hit = p[len(s):]
                tag = os.path.basename(s.rstrip("/"))
                hit = f"{tag}:{hit}"
                break
        if hit:
            break
    if hit is None:
        return None
    if event == "open":
        flags = args[2] if len(args) > 2 and isinstance(args[2], int) else 0
        mode = "w" if flags & (os.O_WRONLY | os.O_RDWR | os.O_CREAT | os.O_TRUNC) else "r"
        return f"open-{mode} {hit}"
    return f"{event} {hit}"


def _hook(event, args):
    if event not in _EVENTS:
        return
    s = _ACTIVE["sched"]
    if s is not None:
        w = s.tid2w.get(threading.get_ident())
        if w is None or s.off:
            return
        lab = _label(event, args, s.shared)
        if lab is not None:
            s.point(w, lab)
        return
    p = _ACTIVE["proc"]
    if p is not None and not p["off"]:
        lab = _label(event, args, p["shared"])
        if lab is not None:
            _proc_point(p, lab)


_HOOKED = [False]


def install_hook():
    if not _HOOKED[0]:
        sys.addaudithook(_hook)
        _HOOKED[0] = True


def read_point(path):
    """Called by wrapped stat helpers (read-side scheduling point)."""
    s = _ACTIVE["sched"]
    if s is not None:
        w = s.tid2w.get(threading.get_ident())
        if w is not None and not s.off:
            for sh in s.shared:
                if path.startswith(sh):
                    s.point(w, f"stat {os.path.basename(sh.rstrip('/'))}:{path[len(sh):]}")
                    return
        return
    p = _ACTIVE["proc"]
    if p is not None and not p["off"]:
        for sh in p["shared"]:
            if path.startswith(sh):
                _proc_point(p, f"stat {os.path.basename(sh.rstrip('/'))}:{path[len(sh):]}")
                return


class HarnessError(Exception):
    pass


# ---- SQL statement boundaries as scheduling points (state database) --------------------------

_SQL = {"installed": False, "on": False}


def install_sql_seam():
    """Every SQL statement that diskcache issues outside a transaction becomes a scheduling point.

    A writer is never parked while it holds the database write lock: statements inside a
    transaction (after BEGIN) are not points.
    """
    if _SQL["installed"]:
        return
    import sqlite3 as real

    import diskcache.core as core

    class Proxy:
        def __getattr__(self, name):
            return getattr(real, name)

        @staticmethod
        def connect(path, *a, **kw):
            con = real.connect(path, *a, **kw)

            def trace(stmt, _con=con, _path=path):
                if not _SQL["on"]:
                    return
                try:
                    if _con.in_transaction:
                        return
                except Exception:  # noqa: BLE001
                    return
                words = stmt.split()
                if not words or words[0].upper() not in ("SELECT", "INSERT", "UPDATE", "DELETE", "BEGIN", "REPLACE"):
                    return
                if "Settings" in stmt or "sqlite_master" in stmt:
                    return
                read_point(os.path.dirname(_path) + "/sql:" + " ".join(words[:3])[:40])

            con.set_trace_callback(trace)
            return con

    core.sqlite3 = Proxy()
    _SQL["installed"] = True


class ThreadSched:
    def __init__(self, fns, choices, shared, timeout=30.0, fine=()):
        self.fns = fns
        self.n = len(fns)
        self.choices = list(choices)
        # `fine`: private directories whose events are scheduling points as well (they commute on the
        # file system, but give preemption opportunities inside phases that only touch memory)
        self.shared = [s if s.endswith("/") else s + "/" for s in list(shared) + list(fine)]
        self.sem = [threading.Semaphore(0) for _ in fns]
        self.ctl = threading.Semaphore(0)
        self.state = ["new"] * self.n
        self.label = [None] * self.n
        self.results = [None] * self.n
        self.tid2w = {}
        self.trace = []  # (order, choice index, label, current_enabled)
        self.off = False
        self.timeout = timeout

    def point(self, w, label):
        self.state[w] = "parked"
        self.label[w] = label
        self.ctl.release()
        self.sem[w].acquire()
        self.state[w] = "running"

    def _main(self, w):
        self.tid2w[threading.get_ident()] = w
        self.point(w, "start")
        try:
            self.results[w] = ("ok", self.fns[w]())
        except BaseException as e:  # noqa: BLE001
            self.results[w] = ("exc", f"{type(e).__name__}: {e}", traceback.format_exc()[-1200:])
        self.state[w] = "done"
        self.ctl.release()

    def run(self):
        install_hook()
        _ACTIVE["sched"] = self
        threads = [threading.Thread(target=self._main, args=(w,), daemon=True) for w in range(self.n)]
        try:
            for t in threads:
                t.start()
            for _ in range(self.n):
                if not self.ctl.acquire(timeout=self.timeout):
                    raise HarnessError("writers did not reach their start point")
            current = None
            while True:
                enabled = [w for w in range(self.n) if self.state[w] == "parked"]
                if not enabled:
                    break
                cur_en = current in enabled
                order = ([current] if cur_en else []) + [w for w in enabled if w != current]
                i = len(self.trace)
                c = self.choices[i] if i < len(self.choices) else 0
                if c >= len(order):
                    raise HarnessError(f"replay divergence at point {i}: choice {c} of {order}")
                chosen = order[c]
                self.trace.append((tuple(order), c, f"w{chosen}:{self.label[chosen]}", cur_en))
                current = chosen
                self.sem[chosen].release()
                if not self.ctl.acquire(timeout=self.timeout):
                    self.off = True
                    raise HarnessError(
                        f"deadlock/hang: writer {chosen} silent for {self.timeout}s after {self.label[chosen]}")
        finally:
            self.off = True
            _ACTIVE["sched"] = None
            # release anything still parked so that daemon threads can finish
            for w in range(self.n):
                self.sem[w].release()
                self.sem[w].release()
        for t in threads:
            t.join(timeout=5)
        return self.trace, self.results


# ---- processes ---------------------------------------------------------------------


def _proc_point(p, label):
    os.write(p["up"], (json.dumps(["point", label]) + "\n").encode())
    b = os.read(p["down"], 1)
    if not b:
        os._exit(9)


class ProcSched:
    """Same protocol with forked writers: each owns its Python objects, they share the disk."""

    def __init__(self, fns, choices, shared, timeout=60.0, pre_fork=None):
        self.fns = fns
        self.n = len(fns)
        self.choices = list(choices)
        self.shared = [s if s.endswith("/") else s + "/" for s in shared]
        self.trace = []
        self.timeout = timeout
        self.pre_fork = pre_fork

    def run(self):
        import select

        install_hook()
        kids = []
        for w in range(self.n):
            up_r, up_w = os.pipe()
            down_r, down_w = os.pipe()
            sys.stdout.flush()
            pid = os.fork()
            if pid == 0:
                code = 0
                try:
                    os.close(up_r)
                    os.close(down_w)
                    for k in kids:
                        os.close(k["up"])
                        os.close(k["down"])
                    from . import world

                    world.ACTOR = f"p{w}"
                    p = {"up": up_w, "down": down_r, "shared": self.shared, "off": False}
                    if self.pre_fork:
                        self.pre_fork(w)
                    _ACTIVE["proc"] = p
                    _proc_point(p, "start")
                    try:
                        res = ["ok", self.fns[w]()]
                    except BaseException as e:  # noqa: BLE001
                        res = ["exc", f"{type(e).__name__}: {e}", traceback.format_exc()[-1200:]]
                    p["off"] = True
                    os.write(up_w, (json.dumps(["done", res], default=str) + "\n").encode())
                except BaseException:  # noqa: BLE001
                    code = 3
                finally:
                    os._exit(code)
            os.close(up_w)
            os.close(down_r)
            kids.append({"pid": pid, "up": up_r, "down": down_w, "buf": b"", "state": "new",
                         "label": None, "result": None})

        def read_msg(k):
            while b"\n" not in k["buf"]:
                r, _, _ = select.select([k["up"]], [], [], self.timeout)
                if not r:
                    raise HarnessError(f"deadlock/hang: writer silent for {self.timeout}s after {k['label']}")
                chunk = os.read(k["up"], 65536)
                if not chunk:
                    raise HarnessError(f"writer died after {k['label']}")
                k["buf"] += chunk
            line, k["buf"] = k["buf"].split(b"\n", 1)
            msg = json.loads(line)
            if msg[0] == "point":
                k["state"], k["label"] = "parked", msg[1]
            else:
                k["state"], k["result"] = "done", tuple(msg[1])

        try:
            for k in kids:
                read_msg(k)
            current = None
            while True:
                enabled = [w for w in range(self.n) if kids[w]["state"] == "parked"]
                if not enabled:
                    break
                cur_en = current in enabled
                order = ([current] if cur_en else []) + [w for w in enabled if w != current]
                i = len(self.trace)
                c = self.choices[i] if i < len(self.choices) else 0
                if c >= len(order):
                    raise HarnessError(f"replay divergence at point {i}: choice {c} of {order}")
                chosen = order[c]
                self.trace.append((tuple(order), c, f"w{chosen}:{kids[chosen]['label']}", cur_en))
                current = chosen
                kids[chosen]["state"] = "running"
                os.write(kids[chosen]["down"], b"g")
                read_msg(kids[chosen])
        finally:
            for k in kids:
                try:
                    os.close(k["down"])
                except OSError:
                    pass
            for k in kids:
                try:
                    if k["state"] != "done":
                        os.kill(k["pid"], 9)  # parked forever or spinning: it will not finish by itself
                except OSError:
                    pass
                try:
                    os.waitpid(k["pid"], 0)
                except ChildProcessError:
                    pass
                try:
                    os.close(k["up"])
                except OSError:
                    pass
        return self.trace, [k["result"] for k in kids]


# ---- exploration ---------------------------------------------------------------------


def preemptions(trace, upto=None):
    n = 0
    for (order, c, _lab, cur_en) in trace[: upto if upto is not None else len(trace)]:
        if cur_en and c > 0:
            n += 1
    return n


def explore(run_one, bound, prefix=(), first_dev=None, max_exec=None):
    """Iterative-context-bounded DFS.

    run_one(choices) -> (trace, observation).  Yields (choices, trace, observation).
    If first_dev is given, only schedules whose first deviation from the default
    policy happens at point index first_dev are explored (for parallel sharding);
    first_dev == -1 means the default schedule only.
    """
    count = [0]

    def rec(pref, min_i):
        trace, obs = run_one(pref)
        count[0] += 1
        yield list(pref), trace, obs
        if max_exec is not None and count[0] >= max_exec:
            return
        choices = [t[1] for t in trace]
        for i in range(min_i, len(trace)):
            order, _c, _lab, cur_en = trace[i]
            base = preemptions(trace, i)
            for alt in range(1, len(order)):
                cost = base + (1 if cur_en else 0)
                if cost > bound:
                    continue
                yield from rec(choices[:i] + [alt], i + 1)

    if first_dev is None:
        yield from rec(list(prefix), len(prefix))
        return
    trace, obs = run_one([])
    if first_dev == -1:
        yield [], trace, obs
        return
    if first_dev >= len(trace):
        return
    order, _c, _lab, cur_en = trace[first_dev]
    choices = [t[1] for t in trace]
    for alt in range(1, len(order)):
        if (1 if cur_en else 0) > bound:
            continue
        yield from rec(choices[:first_dev] + [alt], first_dev + 1)
