"""Scratch worlds on tmpfs, seams for nondeterminism, snapshot / audit helpers."""

import atexit
import hashlib
import itertools
import os
import re
import shutil
import signal
import stat
import sys
import tempfile

from . import assert_tree

_SESSION = None
_COUNTER = itertools.count()


def session_root():
    """Session scratch root (created by the top-level process, shared by forks)."""
    global _SESSION
    if _SESSION is None:
        env = os.environ.get("MC_SESSION_ROOT")
        if env:
            _SESSION = env
        else:
            base = "/dev/shm" if os.path.isdir("/dev/shm") else tempfile.gettempdir()
            seed = os.environ.get("VERIF_SEED", "0")
            _SESSION = os.path.join(base, f"dvcmc.{os.getpid()}.{seed}")
            os.makedirs(_SESSION, exist_ok=True)
            os.environ["MC_SESSION_ROOT"] = _SESSION
            owner = os.getpid()

            def _cleanup(*_a):
                if os.getpid() == owner:
                    force_rmtree(_SESSION)

            atexit.register(_cleanup)

            def _sig(signum, _frm):
                _cleanup()
                signal.signal(signum, signal.SIG_DFL)
                os.kill(os.getpid(), signum)

            for s in (signal.SIGTERM, signal.SIGINT, signal.SIGHUP):
                try:
                    signal.signal(s, _sig)
                except (ValueError, OSError):
                    pass
    return _SESSION


def force_rmtree(path):
    def _onerr(func, p, _exc):
        try:
            os.chmod(os.path.dirname(p), 0o700)
            os.chmod(p, 0o700)
            func(p)
        except OSError:
            pass

    if os.path.lexists(path):
        shutil.rmtree(path, onerror=_onerr)


class World:
    """A fresh directory for one execution; removed on exit."""

    def __init__(self, keep=False):
        self.root = os.path.join(
            session_root(), f"w{os.getpid()}", str(next(_COUNTER))
        )
        self.keep = keep

    def __enter__(self):
        os.makedirs(self.root)
        reset_globals()
        return self

    def __exit__(self, *exc):
        if not self.keep:
            force_rmtree(self.root)
        return False

    def p(self, *parts):
        return os.path.join(self.root, *parts)

    def mkdir(self, *parts):
        d = self.p(*parts)
        os.makedirs(d, exist_ok=True)
        return d


# --------------------------------------------------------------------------
# seams


_SEAMS_DONE = False
_TMP_COUNTER = itertools.count()
ACTOR = "m"


def _det_tmp_fname(prefix=""):
    return f"{prefix}.t{ACTOR}-{next(_TMP_COUNTER)}.tmp"


def install_seams():
    """Idempotent: deterministic temp names, no logging, no progress bars."""
    global _SEAMS_DONE
    if _SEAMS_DONE:
        return
    assert_tree()
    import logging

    logging.disable(logging.CRITICAL)

    import dvc_objects.fs.generic  # noqa: F401
    import dvc_objects.fs.local as _lo
    import dvc_objects.fs.utils as _ut

    import dvc_data.hashfile.db.local as _dl

    for mod in (_ut, _lo, _dl):
        if not hasattr(mod, "tmp_fname"):
            raise SystemExit(f"HARNESS-ERROR seam tmp_fname missing in {mod.__name__}")
        mod.tmp_fname = _det_tmp_fname
    _SEAMS_DONE = True


def reset_globals():
    """Reset process-global library state between executions."""
    global _TMP_COUNTER
    install_seams()
    _TMP_COUNTER = itertools.count()
    from dvc_objects.fs import MemoryFileSystem

    import dvc_data.hashfile.build as _b

    m = MemoryFileSystem()
    m.fs.store.clear()
    del m.fs.pseudo_dirs[:]
    m.fs.pseudo_dirs.append("")
    _b._url_cache.clear()
    reset_clock()


# --------------------------------------------------------------------------
# logical clock for harness-made mutations

_CLOCK = [0]
EPOCH_NS = 1_000_000_000 * 1_000_000_000  # 10^9 s


def reset_clock():
    _CLOCK[0] = 0


def tick(step_ns=1_000_000_000):
    _CLOCK[0] += step_ns
    return EPOCH_NS + _CLOCK[0]


def stamp(path, step_ns=1_000_000_000):
    ns = tick(step_ns)
    os.utime(path, ns=(ns, ns), follow_symlinks=False)
    return ns


# --------------------------------------------------------------------------
# workspace helpers


def write_file(path, data, exec_=False, stamp_it=True):
    os.makedirs(os.path.dirname(path), exist_ok=True)
    with open(path, "wb") as f:
        f.write(data)
    if exec_:
        os.chmod(path, os.stat(path).st_mode | 0o111)
    if stamp_it:
        stamp(path)


def write_tree(base, files, order=None):
    """files: {relpath: bytes | (bytes, exec)}; order: creation order of relpaths."""
    os.makedirs(base, exist_ok=True)
    keys = list(order) if order is not None else list(files)
    for rel in keys:
        v = files[rel]
        data, ex = (v if isinstance(v, tuple) else (v, False))
        write_file(os.path.join(base, *rel.split("/")), data, ex)


def walk_files(base):
    """{relpath: bytes} of every non-directory under base (through symlinks)."""
    out = {}
    if not os.path.lexists(base):
        return out
    if not os.path.isdir(base):
        with open(base, "rb") as f:
            return {"": f.read()}
    for root, _dirs, files in os.walk(base):
        for fn in files:
            p = os.path.join(root, fn)
            rel = os.path.relpath(p, base).replace(os.sep, "/")
            try:
                with open(p, "rb") as f:
                    out[rel] = f.read()
            except OSError as e:
                out[rel] = ("ERR", type(e).__name__)
    return out


def walk_dirs(base):
    out = set()
    for root, dirs, _files in os.walk(base):
        for d in dirs:
            out.add(os.path.relpath(os.path.join(root, d), base).replace(os.sep, "/"))
    return out


TMP_RE = re.compile(r"(^|/)[^/]*\.tmp$|\.tmp$")


def is_temp_name(name):
    return name.endswith(".tmp")


def store_snapshot(path):
    """{oid: (bytes, mode)} for every non-temp object file of a local-fs store.

    Files are located by walking <root>/<2 chars>/<rest>; anything else
    (temp names, files at the store root, deeper nesting) is returned under
    the key ('JUNK', relpath) so that audits can decide what to do with it.
    """
    out = {}
    if not os.path.isdir(path):
        return out
    for root, _dirs, files in os.walk(path):
        for fn in files:
            p = os.path.join(root, fn)
            rel = os.path.relpath(p, path).replace(os.sep, "/")
            parts = rel.split("/")
            try:
                st = os.lstat(p)
                if stat.S_ISLNK(st.st_mode):
                    data = ("LINK", os.readlink(p))
                else:
                    with open(p, "rb") as f:
                        data = f.read()
            except OSError as e:
                data = ("ERR", type(e).__name__)
                st = None
            mode = stat.S_IMODE(st.st_mode) if st else None
            if is_temp_name(fn):
                out[("TMP", rel)] = (data, mode)
            elif len(parts) == 2 and len(parts[0]) == 2:
                out["".join(parts)] = (data, mode)
            else:
                out[("JUNK", rel)] = (data, mode)
    return out


def objects_only(snap):
    return {k: v for k, v in snap.items() if isinstance(k, str)}


def memfs_store_snapshot(path):
    """Same as store_snapshot for a store that lives in the global memfs."""
    from dvc_objects.fs import MemoryFileSystem

    m = MemoryFileSystem()
    out = {}
    prefix = path.rstrip("/") + "/"
    for k, v in m.fs.store.items():
        kk = k if k.startswith("/") else "/" + k
        pp = prefix if prefix.startswith("/") else "/" + prefix
        if kk.startswith(pp):
            rel = kk[len(pp) :]
            parts = rel.split("/")
            data = bytes(v.getvalue())
            if is_temp_name(parts[-1]):
                out[("TMP", rel)] = (data, None)
            elif len(parts) == 2 and len(parts[0]) == 2:
                out["".join(parts)] = (data, None)
            else:
                out[("JUNK", rel)] = (data, None)
    return out


def digest_obj(x):
    """Stable short digest of a JSON-able / repr-able observation."""
    return hashlib.sha1(repr(x).encode("utf-8", "backslashreplace")).hexdigest()[:16]


def drop_privileges():
    """Drop CAP_DAC_OVERRIDE, CAP_DAC_READ_SEARCH, CAP_FOWNER in this process.

    This is how an ordinary user experiences 0o444 objects while the process
    keeps uid 0 (setuid(nobody) is unusable: the interpreter lives under /root).
    """
    import ctypes

    libc = ctypes.CDLL(None, use_errno=True)

    class Hdr(ctypes.Structure):
        _fields_ = [("version", ctypes.c_uint32), ("pid", ctypes.c_int)]

    class Data(ctypes.Structure):
        _fields_ = [
            ("effective", ctypes.c_uint32),
            ("permitted", ctypes.c_uint32),
            ("inheritable", ctypes.c_uint32),
        ]

    hdr = Hdr(0x20080522, 0)
    data = (Data * 2)()
    if libc.capget(ctypes.byref(hdr), data) != 0:
        raise OSError(ctypes.get_errno(), "capget")
    drop = (1 << 1) | (1 << 2) | (1 << 3)  # DAC_OVERRIDE, DAC_READ_SEARCH, FOWNER
    data[0].effective &= ~drop
    data[0].permitted &= ~drop
    data[0].inheritable &= ~drop
    if libc.capset(ctypes.byref(hdr), data) != 0:
        raise OSError(ctypes.get_errno(), "capset")


if __name__ == "__main__":
    print(session_root(), file=sys.stderr)
