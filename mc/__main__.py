import sys

from .harness import main

sys.exit(main())
