"""Object-level checkout lab shared by C05 / C07 / C10."""

import os
import stat

from . import ref
from .lab import CONTENTS, LFS, MD5, hi, make_odb, put_raw

TREES = {
    "A": {"a": "x", "b": "x", "e": "e", "s/c": "y"},
    "B": {"a": "y", "s/c": "y", "s/d": "x"},
    "S": {"a": "x"},                       # subset of A
    "N": {"s/c": "z", "n/m": "w"},
    # sibling directories one of whose names extends the other's
    "P": {"set1/a": "x", "set1.bak/b": "y", "zz.old/c": "w", "zz/d": "z"},
}
UNCACHED = b"user-edit-not-in-cache"


def listing(t):
    return {rel: MD5[c] for rel, c in TREES[t].items()}


def tree_oid(t):
    return ref.tree_oid(listing(t))


def fill_cache(odb, trees=TREES, extra=()):
    for t in trees:
        for c in TREES[t].values():
            put_raw(odb, MD5[c], CONTENTS[c])
        put_raw(odb, tree_oid(t), ref.tree_bytes(listing(t)))
    for c in extra:
        put_raw(odb, MD5[c], CONTENTS[c])


def load_obj(odb, name):
    from dvc_data.hashfile import load

    if name in TREES:
        return load(odb, hi(tree_oid(name)))
    return load(odb, hi(MD5[name]))  # single file object named by content key


def want_files(name):
    if name in TREES:
        return {rel: CONTENTS[c] for rel, c in TREES[name].items()}
    return {"": CONTENTS[name]}


def lstat_map(base):
    """{relpath: (kind, inode, nlink, mtime_ns, link target)} for every entry under base."""
    out = {}
    if not os.path.lexists(base):
        return out
    if not os.path.isdir(base) or os.path.islink(base):
        st = os.lstat(base)
        return {"": _ent(base, st)}
    for root, dirs, files in os.walk(base):
        for fn in files + [d for d in dirs if os.path.islink(os.path.join(root, d))]:
            p = os.path.join(root, fn)
            out[os.path.relpath(p, base).replace(os.sep, "/")] = _ent(p, os.lstat(p))
    return out


def _ent(p, st):
    if stat.S_ISLNK(st.st_mode):
        return ("symlink", st.st_ino, st.st_nlink, st.st_mtime_ns, os.readlink(p))
    return ("file", st.st_ino, st.st_nlink, st.st_mtime_ns, None)


def link_kind(path, odb, oid, content):
    """Classify a workspace file relative to its cache object: copy / hardlink / symlink / other."""
    cpath = odb.oid_to_path(oid)
    st = os.lstat(path)
    if stat.S_ISLNK(st.st_mode):
        return "symlink" if os.readlink(path) == cpath else "symlink-elsewhere"
    cst = os.stat(cpath)
    if st.st_ino == cst.st_ino:
        return "hardlink"
    if st.st_nlink == 1:
        return "copy"
    return "other"


__all__ = ["CONTENTS", "LFS", "MD5", "TREES", "UNCACHED", "fill_cache", "hi", "link_kind", "listing",
           "load_obj", "lstat_map", "make_odb", "put_raw", "tree_oid", "want_files"]
