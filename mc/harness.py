"""Exploration context: worker pool, counters, violations, evidence, findings."""

import importlib
import json
import multiprocessing as mp
import os
import re
import sys
import time
import traceback

from . import VERIF
from .world import digest_obj, install_seams, session_root

NPROC = int(os.environ.get("MC_NPROC", "0")) or min(16, os.cpu_count() or 1)
KNOWN_FILE = os.path.join(VERIF, "known_findings.txt")


def _worker_init():
    install_seams()
    session_root()


class _ChildRaised(Exception):
    def __init__(self, name, text, tb, lib):
        super().__init__(f"{name}: {text}")
        self.name, self.text, self.tb, self.lib = name, text, tb, lib


def _isolated(fn, case, limit):
    """Run fn(case) in a forked child: no library-global state (memo tables, caches a change to the library
    may introduce) leaks from one case into the next, so every reported case reproduces from its replay file."""
    import pickle

    r, w = os.pipe()
    sys.stdout.flush()
    sys.stderr.flush()
    pid = os.fork()
    if pid == 0:
        code = 0
        try:
            os.close(r)
            try:
                out = ("ok", fn(case))
            except BaseException as e:  # noqa: BLE001
                out = ("exc", type(e).__name__, str(e), traceback.format_exc()[-3000:], _library_frame(e))
            with os.fdopen(w, "wb") as f:
                pickle.dump(out, f)
        except BaseException:  # noqa: BLE001
            code = 3
        finally:
            os._exit(code)
    os.close(w)

    def wait(_case):
        chunks = []
        with os.fdopen(r, "rb") as f:
            while True:
                b = f.read(1 << 20)
                if not b:
                    break
                chunks.append(b)
        return b"".join(chunks)

    try:
        data = _with_alarm(wait, case, limit)
    except BaseException:
        try:
            os.kill(pid, 9)
        except OSError:
            pass
        os.waitpid(pid, 0)
        raise
    os.waitpid(pid, 0)
    if not data:
        raise RuntimeError("isolated case produced no result (child died)")
    out = pickle.loads(data)
    if out[0] == "ok":
        return out[1]
    raise _ChildRaised(*out[1:])


ISOLATE_MAX_CASES = 3000  # a map over more (hence small) cases runs them in the pool workers directly


def _call(args):
    modname, fname, case = args[:3]
    mod = importlib.import_module(modname)
    fn = getattr(mod, fname)
    limit = int(os.environ.get("MC_CASE_TIMEOUT") or getattr(mod, "CASE_TIMEOUT", 900))
    isolate = (len(args) > 3 and args[3]) and getattr(mod, "ISOLATE", True) \
        and os.environ.get("MC_ISOLATE", "1") != "0"
    try:
        if isolate:
            return case, _isolated(fn, case, limit)
        return case, _with_alarm(fn, case, limit)
    except _ChildRaised as e:
        if e.lib is not None:
            return case, {"viol": [(f"library-raises-{e.name}@{e.lib}", e.tb[-1500:],
                                    {"__fn__": fname, "__case__": case})], "n": 1}
        return case, {"harness_error": f"{e.name}: {e.text}\n{e.tb}"}
    except CaseTimeout:
        # no result within the limit: either an operation of the library does not terminate, or the machine
        # is busy. Run the case once more, alone in a fresh child, with three times the limit; only a second
        # timeout is reported (a case that merely was slow comes back with its result, marked as such).
        from .world import session_root

        flag = os.path.join(session_root(), "hang-confirmed")
        if os.path.exists(flag):
            # (a hang was already confirmed by an extended re-run in this session: do not pay for it again)
            return case, {"viol": [("library-does-not-terminate", f"no result after {limit}s",
                                    {"__fn__": fname, "__case__": case})], "n": 1}
        try:
            res = _isolated(fn, case, 3 * limit)
            if isinstance(res, dict):
                res.setdefault("vac", {})
                res["vac"]["cases_that_needed_the_extended_time_limit"] = 1
            return case, res
        except CaseTimeout:
            with open(flag, "w") as fh:
                fh.write(repr(case)[:500])
            return case, {"viol": [("library-does-not-terminate", f"no result after {limit}s and again after {3 * limit}s",
                                    {"__fn__": fname, "__case__": case})], "n": 1}
        except _ChildRaised as e:
            if e.lib is not None:
                return case, {"viol": [(f"library-raises-{e.name}@{e.lib}", e.tb[-1500:],
                                        {"__fn__": fname, "__case__": case})], "n": 1}
            return case, {"harness_error": f"{e.name}: {e.text}\n{e.tb}"}
        except BaseException as e:  # noqa: BLE001
            return case, {"harness_error": f"{type(e).__name__}: {e}\n{traceback.format_exc()}"}
    except BaseException as e:  # noqa: BLE001
        lib = _library_frame(e)
        if lib is not None:
            # an exception escaping from dvc_data on an input the unchanged tree handles:
            # reported as a violation (with the traceback), not as a harness error
            return case, {"viol": [(f"library-raises-{type(e).__name__}@{lib}",
                                    traceback.format_exc()[-1500:],
                                    {"__fn__": fname, "__case__": case})], "n": 1}
        return case, {
            "harness_error": f"{type(e).__name__}: {e}\n{traceback.format_exc()}"
        }


class CaseTimeout(BaseException):
    pass


def _with_alarm(fn, case, limit):
    import signal
    import threading

    if threading.current_thread() is not threading.main_thread() or not limit:
        return fn(case)

    def _raise(_s, _f):
        raise CaseTimeout()

    old = signal.signal(signal.SIGALRM, _raise)
    signal.alarm(limit)
    try:
        return fn(case)
    finally:
        signal.alarm(0)
        signal.signal(signal.SIGALRM, old)


def _library_frame(exc):
    """'<file>:<function>' of the innermost dvc_data frame of the traceback, if any."""
    src = os.path.realpath(os.environ.get("DVC_DATA_SRC", "/repo/src"))
    hit = None
    tb = exc.__traceback__
    while tb is not None:
        fn = os.path.realpath(tb.tb_frame.f_code.co_filename)
        if fn.startswith(src + os.sep):
            hit = f"{os.path.relpath(fn, src)}:{tb.tb_frame.f_code.co_name}"
        tb = tb.tb_next
    return hit


def load_known():
    known, fixed = {}, {}
    if not os.path.exists(KNOWN_FILE):
        return known, fixed
    for line in open(KNOWN_FILE, encoding="utf-8"):
        line = line.strip()
        if not line or line.startswith("#"):
            continue
        m = re.match(
            r"(known|fixed): property=(\S+)(?: (\S+))? signature=(\S+) :: (.*)$", line
        )
        if not m:
            continue
        kind, pid, commit, sig, what = m.groups()
        (known if kind == "known" else fixed)[(pid, sig)] = (what, commit)
    return known, fixed


class Ctx:
    def __init__(self, pid, tier, seed, module):
        self.pid, self.tier, self.seed, self.module = pid, tier, seed, module
        self.t0 = time.time()
        self.evaluations = 0
        self.transitions = 0
        self.traces = 0
        self.states = set()
        self.outcomes = set()
        self.nontrivial = set()
        self.samples = []
        self.vac = {}
        self.required = []
        self.viol = {}  # sig -> dict(case, detail, count)
        self.harness_errors = []
        self.bound = {}
        self.rule = ""
        self.assumptions = []
        self.exhaustive = True
        self.caps = []
        self.det_replays = 0
        self.extra = {}
        self._pool = None

    # ---- pool
    def pool(self):
        if self._pool is None:
            session_root()
            ctx = mp.get_context("fork")
            self._pool = ctx.Pool(NPROC, initializer=_worker_init)
        return self._pool

    def close(self):
        if self._pool is not None:
            self._pool.close()
            self._pool.join()
            self._pool = None

    def pmap(self, fname, cases, chunksize=None, module=None):
        """Unordered parallel map of module.fname over cases -> (case, result)."""
        module = module or self.module
        cases = list(cases)
        if not cases:
            return
        if chunksize is None:
            chunksize = max(1, min(64, len(cases) // (NPROC * 8) or 1))
        iso = len(cases) <= ISOLATE_MAX_CASES
        if NPROC == 1 or len(cases) == 1:
            _worker_init()
            for c in cases:
                yield _call((module, fname, c, iso))
            return
        yield from self.pool().imap_unordered(
            _call, [(module, fname, c, iso) for c in cases], chunksize
        )

    # ---- result handling
    def absorb(self, case, res, fname=None):
        if "harness_error" in res:
            self.harness_errors.append((case, res["harness_error"]))
            return
        n = res.get("n", 1)
        self.evaluations += n
        self.traces += res.get("traces", n)
        self.transitions += res.get("trans", n)
        st = res.get("states")
        if st is None and "state" in res:
            st = [res["state"]]
        for s in st or ():
            self.states.add(s)
        oc = res.get("outcomes")
        if oc is None and "outcome" in res:
            oc = [res["outcome"]]
        for o in oc or ():
            self.outcomes.add(o)
        nt = res.get("nontrivial")
        if nt is True:
            self.nontrivial.add(digest_obj(case))
        elif nt:
            for x in nt:
                self.nontrivial.add(x)
        for k, v in (res.get("vac") or {}).items():
            self.vac[k] = self.vac.get(k, 0) + v
        for v in res.get("viol") or ():
            sig, detail = v[0], v[1]
            vcase = v[2] if len(v) > 2 else case
            self.violation(sig, vcase, detail, enclosing=(fname, case) if fname else None)
        s = res.get("sample")
        if s is not None and len(self.samples) < 6:
            self.samples.append(s)

    def violation(self, sig, case, detail, enclosing=None):
        ent = self.viol.get(sig)
        if ent is None:
            self.viol[sig] = {"case": case, "detail": detail, "count": 1, "enclosing": enclosing}
        else:
            ent["count"] += 1
            # keep the smallest case for the replay file
            if len(json.dumps(case, default=str)) < len(
                json.dumps(ent["case"], default=str)
            ):
                ent["case"], ent["detail"], ent["enclosing"] = case, detail, enclosing

    def run_cases(self, fname, cases, chunksize=None, det=20, sample_every=None):
        cases = list(cases)
        first = {}
        for case, res in self.pmap(fname, cases, chunksize):
            self.absorb(case, res, fname)
            if det and len(first) < 10_000:
                first[json.dumps(case, sort_keys=True, default=str)] = res
        if det:
            self.determinism(fname, cases[:det], first)
        return len(cases)

    def run_level(self, fname, cases, det=6):
        """pmap + absorb; returns [(case, res)] and replays the first `det` cases."""
        cases = list(cases)
        want = {json.dumps(c, sort_keys=True, default=str) for c in cases[:det]}
        first, out = {}, []
        for case, res in self.pmap(fname, cases):
            self.absorb(case, res, fname)
            out.append((case, res))
            k = json.dumps(case, sort_keys=True, default=str)
            if k in want:
                first[k] = res
        if det:
            self.determinism(fname, cases[:det], first)
        return out

    def determinism(self, fname, cases, first):
        """Replay cases once more; observations must be identical."""
        for case, res in self.pmap(fname, cases, 1):
            k = json.dumps(case, sort_keys=True, default=str)
            if k not in first:
                continue
            a, b = _obs(first[k]), _obs(res)
            self.det_replays += 1
            if a != b:
                self.harness_errors.append(
                    (case, f"nondeterministic observation on replay: {a} != {b}")
                )

    def require(self, *names):
        self.required.extend(names)

    def sample(self, s):
        if len(self.samples) < 6:
            self.samples.append(s)

    # ---- finishing
    def finish(self):
        self.close()
        known, fixed = load_known()
        mod = importlib.import_module(self.module)
        lines, nviol, nknown = [], 0, 0
        for sig in sorted(self.viol):
            ent = self.viol[sig]
            # confirm from the replay artefact before reporting
            path = self.write_replay(sig, ent)
            confirmed = None
            tmo = int(getattr(mod, "CASE_TIMEOUT", 900))
            # confirmations get a generous limit: on a busy machine a replay that merely is slow must not
            # turn a real violation into "did not reproduce"
            rtmo = max(3 * tmo, 300)
            if hasattr(mod, "replay"):
                try:
                    _worker_init()
                    tmo = int(getattr(mod, "CASE_TIMEOUT", 900))
                    if sig == "library-does-not-terminate":
                        fn = getattr(mod, ent["case"]["__fn__"])
                        try:
                            _isolated(fn, ent["case"]["__case__"], 3 * tmo)
                            confirmed = False
                        except CaseTimeout:
                            confirmed = True
                    elif sig.startswith("library-raises-"):
                        fn = getattr(mod, ent["case"]["__fn__"])
                        try:
                            _isolated(fn, ent["case"]["__case__"], rtmo)
                            confirmed = False
                        except _ChildRaised as e2:
                            confirmed = sig == f"library-raises-{e2.name}@{e2.lib}"
                    else:
                        # each replay in a fresh child: earlier replays leave nothing behind
                        got = _isolated(mod.replay, ent["case"], rtmo)
                        confirmed = any(v[0] == sig for v in got)
                except BaseException as e:  # noqa: BLE001
                    confirmed = False
                    ent["detail"] = f"{ent['detail']} (replay raised {e!r})"
            enc = ent.get("enclosing")
            if confirmed is False and enc and enc[1] != ent["case"] and hasattr(mod, enc[0]):
                # the single operation does not reproduce on its own: run the whole enclosing case (the
                # sequence of operations one worker process performed) in a fresh child. If the signature
                # comes back, the library's answer depends on what the process did before - state carried
                # over between independent operations - and the enclosing case is the replayable artefact.
                try:
                    res2 = _isolated(getattr(mod, enc[0]), enc[1], rtmo)
                    if any(v[0] == sig for v in (res2.get("viol") or ())):
                        confirmed = True
                        ent["detail"] = (f"{ent['detail']} [reproduces only inside its enclosing case {enc[0]}: the "
                                         "outcome depends on operations performed earlier in the same process]")
                        ent["replay_enclosing"] = True
                        path = self.write_replay(sig, ent)
                except BaseException as e:  # noqa: BLE001
                    ent["detail"] = f"{ent['detail']} (enclosing-case replay raised {e!r})"
            if confirmed is False:
                self.harness_errors.append(
                    (ent["case"], f"violation {sig} did not reproduce on replay")
                )
                continue
            if (self.pid, sig) in known:
                nknown += 1
                lines.append(
                    f"KNOWN-FINDING: property={self.pid} {known[(self.pid, sig)][0]}"
                    f" [signature={sig} cases={ent['count']} replay={path}]"
                )
            else:
                nviol += 1
                lines.append(f"VIOLATION property={self.pid} replay={path}")
                lines.append(f"  signature={sig} cases={ent['count']}")
                lines.append(f"  detail={str(ent['detail'])[:600]}")
                if (self.pid, sig) in fixed:
                    lines.append(
                        "  note: this signature is recorded as fixed in "
                        f"{fixed[(self.pid, sig)][1]} -- it has returned"
                    )
        for name in self.required:
            if not self.vac.get(name):
                self.harness_errors.append(
                    (None, f"vacuity guard: counter '{name}' is zero")
                )
        wall = time.time() - self.t0
        cov = {
            "states": len(self.states),
            "transitions": self.transitions,
            "traces_validated_against_impl": self.traces,
            "samples": self.samples[:6] or ["(none recorded)"],
            "evaluations": self.evaluations,
            "distinct_nontrivial": len(self.nontrivial),
            "rule": self.rule,
            "distinct_outcomes": len(self.outcomes),
            "exhaustive": bool(self.exhaustive and not self.harness_errors),
            "bound": self.bound,
            "caps_hit": self.caps,
            "determinism_replays": self.det_replays,
            "vacuity_counters": self.vac,
            "violation_signatures": {
                s: e["count"] for s, e in sorted(self.viol.items())
            },
            "known_findings_matched": nknown,
            "explanation": (
                "The implementation itself is the transition function: every "
                "execution counted here ran the real dvc_data code from "
                f"{os.environ.get('DVC_DATA_SRC', '/repo/src')} and was compared "
                "with the reference model; traces_validated_against_impl = "
                "number of such executions."
            ),
        }
        cov.update(self.extra)
        ev = {
            "property_id": self.pid,
            "tier": self.tier,
            "seed": self.seed,
            "level": "model_checking",
            "coverage": cov,
            "assumptions": self.assumptions,
            "wall_s": round(wall, 2),
            "violations": nviol,
        }
        os.makedirs(os.path.join(VERIF, "evidence"), exist_ok=True)
        evp = os.environ.get("MC_EVIDENCE_DIR") or os.path.join(VERIF, "evidence")
        os.makedirs(evp, exist_ok=True)
        with open(os.path.join(evp, f"{self.pid}.json"), "w") as f:
            json.dump(ev, f, indent=1, sort_keys=True, default=str)
        for ln in lines:
            print(ln)
        print(
            f"[{self.pid} {self.tier}] evaluations={self.evaluations} "
            f"states={len(self.states)} transitions={self.transitions} "
            f"outcomes={len(self.outcomes)} nontrivial={len(self.nontrivial)} "
            f"violations={nviol} known={nknown} det_replays={self.det_replays} "
            f"exhaustive={cov['exhaustive']} wall={wall:.1f}s"
        )
        if self.harness_errors:
            for case, msg in self.harness_errors[:5]:
                print(f"HARNESS-ERROR property={self.pid} {msg[:2000]} case={case!r:.500}")
            # a confirmed violation outranks harness complaints (typically vacuity guards that
            # starve because the violating cases were cut short)
            return 1 if nviol else 2
        return 1 if nviol else 0

    def write_replay(self, sig, ent):
        d = os.environ.get("MC_REPLAY_DIR") or os.path.join(VERIF, "replays")
        d = os.path.join(d, self.pid)
        os.makedirs(d, exist_ok=True)
        slug = re.sub(r"[^A-Za-z0-9_.-]+", "_", sig)[:100]
        path = os.path.join(d, f"{slug}.json")
        with open(path, "w") as f:
            json.dump(
                {
                    "property": self.pid,
                    "module": self.module,
                    "signature": sig,
                    "detail": ent["detail"],
                    "case": ent["case"],
                    "enclosing": ({"fn": ent["enclosing"][0], "case": ent["enclosing"][1]}
                                  if ent.get("replay_enclosing") else None),
                    "cases_with_this_signature": ent["count"],
                    "how_to_replay": f"cd /verif && /venv/bin/python -m mc replay {path}",
                },
                f,
                indent=1,
                default=str,
            )
        return path


def _obs(res):
    if "harness_error" in res:
        return ("HE", res["harness_error"][:200])
    return (
        res.get("outcome"),
        tuple(sorted(res.get("outcomes") or ())),
        tuple(sorted(v[0] for v in res.get("viol") or ())),
        res.get("state"),
    )


def replay_file(path):
    with open(path) as f:
        rep = json.load(f)
    _worker_init()
    mod = importlib.import_module(rep["module"])
    if isinstance(rep["case"], dict) and "__fn__" in rep["case"]:
        try:
            _with_alarm(getattr(mod, rep["case"]["__fn__"]), rep["case"]["__case__"],
                        int(getattr(mod, "CASE_TIMEOUT", 900)))
            print("  no exception on this tree")
            return 0
        except CaseTimeout:
            print("  the case does not terminate")
            if rep["signature"] == "library-does-not-terminate":
                print(f"VIOLATION property={rep['property']} replay={path}")
                return 1
            return 0
        except BaseException as e:  # noqa: BLE001
            traceback.print_exc()
            sig = f"library-raises-{type(e).__name__}@{_library_frame(e)}"
            print(f"  violation signature={sig}")
            if sig == rep["signature"]:
                print(f"VIOLATION property={rep['property']} replay={path}")
                return 1
            return 0
    got = mod.replay(rep["case"])
    if rep.get("enclosing") and not any(v[0] == rep["signature"] for v in got):
        # reproduces only as part of the sequence of operations its worker process performed
        enc = rep["enclosing"]
        print(f"single operation is clean on its own; replaying the enclosing case {enc['fn']}")
        got = [(v[0], v[1]) for v in (getattr(mod, enc["fn"])(enc["case"]).get("viol") or ())]
    print(f"replaying {rep['property']} signature={rep['signature']}")
    print("case:", json.dumps(rep["case"])[:2000])
    hit = False
    for v in got:
        print(f"  violation signature={v[0]} detail={str(v[1])[:1500]}")
        hit |= v[0] == rep["signature"]
    if not got:
        print("  no violation on this tree")
    if hit:
        print(f"VIOLATION property={rep['property']} replay={path}")
    return 1 if hit else 0


def main(argv=None):
    argv = list(sys.argv[1:] if argv is None else argv)
    if not argv:
        print("usage: python -m mc check <Cxx> [--tier quick|thorough] | replay <file>")
        return 2
    cmd = argv.pop(0)
    if cmd == "replay":
        return replay_file(argv[0])
    if cmd != "check":
        print("unknown command", cmd)
        return 2
    pid = argv.pop(0)
    tier = os.environ.get("VERIF_TIER") or "quick"
    if "--tier" in argv:
        tier = argv[argv.index("--tier") + 1]
    if tier not in ("quick", "thorough"):
        tier = "quick"
    seed = int(os.environ.get("VERIF_SEED", "0") or 0)
    # fixed hash seed for this process and every forked worker
    want = str(seed % 4294967295)
    if os.environ.get("PYTHONHASHSEED") != want:
        os.environ["PYTHONHASHSEED"] = want
        os.execv(sys.executable, [sys.executable, "-m", "mc", "check", pid, "--tier", tier])
    module = f"mc.checks.{pid}"
    mod = importlib.import_module(module)
    ctx = Ctx(pid, tier, seed, module)
    try:
        mod.run(ctx)
    except BaseException as e:  # noqa: BLE001
        ctx.harness_errors.append((None, f"{type(e).__name__}: {e}\n{traceback.format_exc()}"))
    return ctx.finish()
