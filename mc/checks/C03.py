"""C03 a directory's identifier is a canonical, deterministic function of its contents.

E1 (pure): all entry sets over a path universe x all insertion permutations x
metadata decorations; injectivity; from_list(as_list) identity; get_obj/filter
for every prefix.  E1 + completion-order schedules (file system): the same
logical tree in every creation order x jobs x routing (sequential / pool, with
every completion permutation of the pool) x hash-state cold/warm/touched.
"""

CASE_TIMEOUT = 300  # seconds per pool task (the unchanged tree needs a small fraction of this)

import itertools
import json
import os

from .. import ref
from ..lab import LFS, make_odb
from ..world import World, digest_obj, stamp, write_file

U = ["a", "b", "s/a", "s/é", "s/t/a", "sx/a", "s/b\\c", "s-x/a"]  # "s" is a string prefix of "sx"
H = {1: ref.md5(b"h-one"), 2: ref.md5(b"h-two")}
DECOS = ["none", "size", "exec", "inode-mtime", "nfiles-etag"]


def deco_meta(name, i):
    from dvc_data.hashfile.meta import Meta

    if name == "none":
        return None
    if name == "size":
        return Meta(size=i + 1)
    if name == "exec":
        return Meta(size=3, isexec=True)
    if name == "inode-mtime":
        return Meta(size=2, inode=1000 + i, mtime=12345.5 + i)
    return Meta(nfiles=i, etag=f"e{i}", version_id="v")


def entry_sets(maxk):
    for k in range(1, maxk + 1):
        for paths in itertools.combinations(U, k):
            for hs in itertools.product((1, 2), repeat=k):
                yield dict(zip(paths, hs))


def prefixes_of(entries):
    out = set()
    for rel in entries:
        parts = rel.split("/")
        for i in range(1, len(parts)):
            out.add(tuple(parts[:i]))
    return sorted(out)


def check_pure(entries, full_perms):
    from dvc_data.hashfile.hash_info import HashInfo
    from dvc_data.hashfile.tree import Tree

    viol = []
    n = 0
    want_entries = {rel: H[h] for rel, h in entries.items()}
    want_bytes = ref.tree_bytes(want_entries)
    want_oid = ref.md5(want_bytes) + ".dir"
    rels = list(entries)
    perms = list(itertools.permutations(rels)) if full_perms else [tuple(rels), tuple(reversed(rels))]
    for pi, perm in enumerate(perms):
        deco = DECOS[pi % len(DECOS)]
        for d in ([deco] if pi else DECOS):
            t = Tree()
            for i, rel in enumerate(perm):
                t.add(tuple(rel.split("/")), deco_meta(d, i), HashInfo("md5", H[entries[rel]]))
            t.digest()
            n += 1
            if t.as_bytes() != want_bytes:
                viol.append(("listing-bytes-not-canonical", f"order={perm} deco={d} got={t.as_bytes()!r}"))
            if t.oid != want_oid or t.hash_info.value != want_oid:
                viol.append(("identifier-depends-on-order-or-metadata", f"order={perm} deco={d} {t.oid} != {want_oid}"))
            # stored bytes (what add_update_tree writes) are the digested bytes
            with t.fs.open(t.path, "rb") as f:
                stored = f.read()
            if ref.md5(stored) + ".dir" != t.oid:
                viol.append(("stored-bytes-do-not-match-identifier", f"deco={d}"))
            # digest(with_meta=True) keeps the identifier
            t2 = Tree()
            for i, rel in enumerate(perm):
                t2.add(tuple(rel.split("/")), deco_meta(d, i), HashInfo("md5", H[entries[rel]]))
            if d != "none":
                t2.digest(with_meta=True)
            else:
                t2.digest()
            if t2.oid != want_oid:
                viol.append(("with-meta-digest-changes-identifier", f"deco={d} {t2.oid}"))
            try:
                with t2.fs.open(t2.path, "rb") as f:
                    raw2 = json.loads(f.read().decode("utf-8"))
                back2 = Tree.from_list(raw2, hash_name="md5")
                got2 = {"/".join(k): (hi.value if hi else None) for k, _m, hi in back2}
            except Exception as e:  # noqa: BLE001
                got2 = repr(e)
            if got2 != want_entries:
                viol.append(("with-meta-object-does-not-hold-the-listing", f"deco={d} {got2}"))
            # round trip
            for wm in ((False, True) if d != "none" else (False,)):
                lst = json.loads(json.dumps(t.as_list(with_meta=wm)))
                back = Tree.from_list(lst, hash_name="md5" if wm else None)
                got = {"/".join(k): (hi.value if hi else None) for k, _m, hi in back}
                if got != want_entries:
                    viol.append(("from_list-as_list-not-identity", f"with_meta={wm} {got}"))
                if back.as_bytes() != want_bytes:
                    viol.append(("reparse-changes-bytes", f"with_meta={wm}"))
    # prefixes
    t = Tree()
    for rel in rels:
        t.add(tuple(rel.split("/")), None, HashInfo("md5", H[entries[rel]]))
    t.digest()

    class _Odb:
        def get(self, oid):
            return ("FILE", oid)

    for pre in prefixes_of(entries):
        sub = {rel[len("/".join(pre)) + 1:]: H[h] for rel, h in entries.items()
               if tuple(rel.split("/"))[: len(pre)] == pre}
        obj = t.get_obj(_Odb(), pre)
        n += 1
        if obj is None or getattr(obj, "oid", None) != ref.tree_oid(sub):
            viol.append(("subtree-object-differs-from-direct-build", f"prefix={pre} got={getattr(obj, 'oid', obj)}"))
        f = t.filter(pre)
        got = {"/".join(k) for k, _m, _h in f}
        wantk = {rel for rel in entries if tuple(rel.split("/"))[: len(pre)] == pre}
        if got != wantk:
            viol.append(("filter-wrong-entries", f"prefix={pre} {got} != {wantk}"))
    for rel in rels:
        obj = t.get_obj(_Odb(), tuple(rel.split("/")))
        if obj != ("FILE", H[entries[rel]]):
            viol.append(("get_obj-file-wrong", f"{rel} -> {obj}"))
    # overwrite an existing key after trie-backed queries were made: every view must see the new digest
    for rel in rels:
        other = H[3 - entries[rel]]
        t3 = Tree()
        for r2 in rels:
            t3.add(tuple(r2.split("/")), None, HashInfo("md5", H[entries[r2]]))
        t3.digest()
        for pre in prefixes_of(entries):
            t3.get_obj(_Odb(), pre)
            t3.filter(pre)
        list(t3.iteritems())
        t3.add(tuple(rel.split("/")), None, HashInfo("md5", other))
        t3.digest()
        n += 1
        new_entries = dict(want_entries)
        new_entries[rel] = other
        if t3.oid != ref.tree_oid(new_entries):
            viol.append(("identifier-stale-after-overwriting-an-entry", f"{rel}"))
        for pre in prefixes_of(entries):
            p_ = "/".join(pre) + "/"
            sub = {r2[len(p_):]: h for r2, h in new_entries.items() if r2.startswith(p_)}
            obj = t3.get_obj(_Odb(), pre)
            if obj is None or getattr(obj, "oid", None) != ref.tree_oid(sub):
                viol.append(("subtree-object-stale-after-overwriting-an-entry", f"overwrote {rel}, prefix={pre}"))
            got = {"/".join(k): (h.value if h else None) for k, _m, h in t3.filter(pre)}
            if got != {r2: h for r2, h in new_entries.items() if r2.startswith(p_)}:
                viol.append(("filter-stale-after-overwriting-an-entry", f"overwrote {rel}, prefix={pre}"))
        got = {"/".join(k): (v[1].value if v[1] else None) for k, v in t3.iteritems()}
        if got != new_entries:
            viol.append(("iteritems-stale-after-overwriting-an-entry", f"overwrote {rel}"))
    real = set(prefixes_of(entries)) | {tuple(r.split("/")) for r in entries}
    cands = [("nope",), ("s", "zz"), ("sx", "zz")] + [(p[0][:-1],) for p in prefixes_of(entries) if len(p[0]) > 1]
    for bogus in cands:
        if bogus in real:
            continue
        r = t.get_obj(_Odb(), bogus)
        if r is not None and not (isinstance(r, tuple)) and len(r) != 0:
            viol.append(("get_obj-of-nonexistent-prefix-returns-entries", f"{bogus}: {len(r)} entries"))
    return viol, n, want_bytes


def run_pure(case):
    res = {"n": 0, "trans": 0, "states": [], "outcomes": set(), "nontrivial": set(), "viol": [],
           "vac": {"perms_gt1": 0, "nested_prefixes": 0}}
    sigs = set()
    sets = list(entry_sets(case["maxk"]))[case["slice"][0]::case["slice"][1]]
    by_bytes = {}
    for es in sets:
        viol, n, wb = check_pure(es, True)
        res["n"] += n
        res["trans"] += n
        d = digest_obj(sorted(es.items()))
        res["states"].append(d)
        by_bytes.setdefault(wb, set()).add(tuple(sorted(es.items())))
        if len(es) >= 2:
            res["nontrivial"].add(d)
            res["vac"]["perms_gt1"] += 1
        if prefixes_of(es):
            res["vac"]["nested_prefixes"] += 1
        for sig, detail in viol:
            if sig not in sigs:
                sigs.add(sig)
                res["viol"].append((sig, detail, {"part": "pure", "entries": es}))
    res["bytes_map"] = {k.decode(): sorted(v) for k, v in by_bytes.items()}
    res["outcomes"] = [len(res["viol"])]
    res["nontrivial"] = sorted(res["nontrivial"])
    return res


# ---- file-system part --------------------------------------------------------------

BIG = 2**20 + 1
FS_TREES = {
    # name: {relpath: (fill byte, size)}
    "small3": {"a": (b"a", 3), "s/b": (b"b", 5), "s/t/c": (b"c", 0)},
    "big3": {"L1": (b"1", BIG), "L2": (b"2", BIG), "L3": (b"3", BIG), "s/x": (b"x", 2)},
    "big2+dup": {"d/L1": (b"1", BIG), "d/L2": (b"1", BIG), "d/y": (b"y", 1), "z": (b"y", 1)},
    "siblings": {"d/x": (b"x", 1), "d2/y": (b"y", 2), "d/e.bak/z": (b"z", 3), "d/e/w": (b"w", 4)},
    "flat4": {"a": (b"a", 1), "b": (b"b", 2), "c": (b"c", 3), "d": (b"d", 4)},
    # CR LF texts: their legacy (md5-dos2unix) digests differ from their md5
    "text3": {"t": (b"ab\r\n", 3), "s/u": (b"c\r\nd", 2), "v": (b"v", 2)},
}

_PERM = {"order": None, "used": 0, "sizes": []}


class PermExec:
    """Stands in for the hashing pool: every task runs, results come back in a chosen order."""

    def __init__(self, max_workers=None, **kw):
        self.max_workers = max_workers

    def __enter__(self):
        return self

    def __exit__(self, *a):
        return False

    def imap_unordered(self, fn, *iterables):
        results = [fn(*args) for args in zip(*iterables)]
        _PERM["used"] += 1
        _PERM["sizes"].append(len(results))
        order = _PERM["order"]
        if order is None or len(order) != len(results):
            order = list(range(len(results)))
        for i in order:
            yield results[i]

    def map(self, fn, *iterables, **_kw):
        # the ordered variant: results come back in submission order whatever the completion order
        _PERM["used"] += 1
        results = [fn(*args) for args in zip(*iterables)]
        _PERM["sizes"].append(len(results))
        return iter(results)

    def submit(self, fn, *args, **kw):
        from concurrent.futures import Future

        _PERM["used"] += 1
        f = Future()
        try:
            f.set_result(fn(*args, **kw))
        except BaseException as e:  # noqa: BLE001
            f.set_exception(e)
        return f

    def shutdown(self, *a, **kw):
        pass


def content(spec):
    fill, size = spec
    return fill * size


def fs_listing(tree):
    return {rel: ref.md5(content(sp)) for rel, sp in tree.items()}


def build_once(w, tname, order, jobs, perm, statemode, threshold_direct, upload=False):
    """Returns (violations, info)."""
    import dvc_data.hashfile.build as B
    from dvc_data.hashfile.state import State

    tree = FS_TREES[tname]
    viol = []
    ws = w.p("ws")
    for rel in order:
        write_file(os.path.join(ws, *rel.split("/")), content(tree[rel]))
    state = None
    if statemode != "none":
        state = State(root_dir=w.root, tmp_dir=w.p("tmp"))
    odb = make_odb("local", w.p("odb"), state=state) if state else make_odb("local", w.p("odb"))
    want = fs_listing(tree)
    want_oid = ref.tree_oid(want)
    orig = B.ThreadPoolExecutor
    B.ThreadPoolExecutor = PermExec
    _PERM.update(order=perm, used=0, sizes=[])
    try:
        runs = 1
        if statemode == "warm":
            runs = 2
        if statemode in ("touched", "rewritten-near"):
            runs = 2
        obj = None
        if statemode.startswith("partial"):
            # the state knows every file but one (a file added since the last build): first / last by name
            from dvc_data.hashfile.hash import hash_file

            skip = sorted(tree)[0 if statemode == "partial-first" else -1]
            for rel in tree:
                if rel != skip:
                    hash_file(os.path.join(ws, *rel.split("/")), LFS, "md5", state=state)
        if statemode == "after-legacy":
            # the same hash-state already served a build of this directory under the legacy algorithm
            legacy = make_odb("local", w.p("odb-legacy"), state=state, hash_name="md5-dos2unix")
            B.build(legacy, ws, LFS, "md5-dos2unix", checksum_jobs=jobs)
        for r in range(runs):
            if r == 1 and statemode == "touched":
                first = sorted(tree)[0]
                stamp(os.path.join(ws, *first.split("/")))
            if r == 1 and statemode == "rewritten-near":
                # the last file is rewritten in place (same size, same inode) half a microsecond later
                last = sorted(tree)[-1]
                pth = os.path.join(ws, *last.split("/"))
                old = open(pth, "rb").read()
                if old:
                    new = bytes((b + 1) % 256 for b in old)
                    ns0 = os.stat(pth).st_mtime_ns
                    with open(pth, "r+b") as fh:
                        fh.write(new)
                    os.utime(pth, ns=(ns0 + 500, ns0 + 500))
                    want = dict(want)
                    want[last] = ref.md5(new)
                    want_oid = ref.tree_oid(want)
            _staging, meta, obj = B.build(odb, ws, LFS, "md5", checksum_jobs=jobs, **({"upload": True} if upload else {}))
            if obj.oid != want_oid:
                viol.append(("fs-identifier-differs-from-reference",
                             f"tree={tname} order={order} jobs={jobs} perm={perm} state={statemode} run={r} {obj.oid} != {want_oid}"))
            with obj.fs.open(obj.path, "rb") as f:
                if f.read() != ref.tree_bytes(want):
                    viol.append(("fs-listing-bytes-differ-from-reference", f"tree={tname} perm={perm} run={r}"))
            if meta.nfiles != len(tree) or meta.size != sum(len(content(sp)) for sp in tree.values()):
                viol.append(("fs-meta-count-or-size-wrong", f"{meta.nfiles} {meta.size}"))
        if statemode == "then-legacy":
            # ... and the other way round: after the md5 build, the same state serves a legacy build
            legacy = make_odb("local", w.p("odb-legacy"), state=state, hash_name="md5-dos2unix")
            _s2, _m2, obj2 = B.build(legacy, ws, LFS, "md5-dos2unix", checksum_jobs=jobs)
            want2 = {rel: ref.digest("md5-dos2unix", content(sp)) for rel, sp in tree.items()}
            with obj2.fs.open(obj2.path, "rb") as f:
                got2 = f.read()
            if obj2.oid != ref.tree_oid(want2) or got2 != ref.tree_bytes(want2):
                viol.append(("fs-identifier-differs-from-reference/legacy-build-after-md5-build",
                             f"tree={tname} jobs={jobs} {obj2.oid} != {ref.tree_oid(want2)}"))
        pool_used = _PERM["used"]
        # sub-directory object == direct build of that sub-directory
        for pre in prefixes_of(tree):
            sub_obj = obj.get_obj(odb, pre)
            _s, _m, direct = B.build(odb, os.path.join(ws, *pre), LFS, "md5", checksum_jobs=jobs)
            if sub_obj is None or sub_obj.oid != direct.oid:
                viol.append(("subtree-object-differs-from-direct-build",
                             f"prefix={pre} {getattr(sub_obj, 'oid', None)} != {direct.oid}"))
        if threshold_direct:
            # _get_hashes with a 1-byte threshold: every non-empty file goes to the pool
            for root_rel in [()] + [p for p in prefixes_of(tree)]:
                root = os.path.join(ws, *root_rel)
                names = sorted(n for n in os.listdir(root) if os.path.isfile(os.path.join(root, n)))
                paths = [os.path.join(root, n) for n in names]
                infos = {p: LFS.info(p) for p in paths}
                got = B._get_hashes(paths, LFS, "md5", infos, state=state, jobs=jobs, large_file_threshold=1)
                for p in paths:
                    rel = os.path.relpath(p, ws).replace(os.sep, "/")
                    if got[p][1].value != want[rel]:
                        viol.append(("hashes-merged-under-wrong-path", f"{rel}: {got[p][1].value} != {want[rel]}"))
    finally:
        B.ThreadPoolExecutor = orig
        if state is not None:
            state.close()
    return viol, {"pool_used": pool_used, "pool_sizes": list(_PERM["sizes"])}


def run_fs(case):
    res = {"n": 0, "trans": 0, "states": [], "outcomes": set(), "nontrivial": set(), "viol": [],
           "vac": {"pool_runs": 0, "pool_perms_nonidentity": 0, "state_warm_runs": 0}}
    sigs = set()
    tname = case["tree"]
    tree = FS_TREES[tname]
    rels = sorted(tree)
    nbig = sum(1 for _f, s in tree.values() if s > 2**20)
    perms = [None]
    if nbig >= 2:
        perms = [list(p) for p in itertools.permutations(range(nbig))]
    order = case["order"]
    for jobs in (1, 2, 4):
        for perm in perms:
            modes = [(m, False) for m in ("none", "cold", "warm", "touched", "rewritten-near", "partial-first", "partial-last")] + \
                [(m, True) for m in ("none", "partial-first", "partial-last")]
            if tname == "text3":
                modes += [("after-legacy", False), ("then-legacy", False)]
            for sm, up in modes:
                with World() as w:
                    viol, info = build_once(w, tname, order, jobs, perm, sm,
                                            threshold_direct=(sm in ("none", "warm") and not up), upload=up)
                if up:
                    viol = [(s_ + "/upload", d_) for s_, d_ in viol]
                    res["vac"]["upload_builds"] = res["vac"].get("upload_builds", 0) + 1
                res["n"] += 1
                res["trans"] += 2 if sm in ("warm", "touched") else 1
                d = digest_obj((tname, order, jobs, perm, sm, up))
                res["states"].append(d)
                res["nontrivial"].add(d)
                if info["pool_used"]:
                    res["vac"]["pool_runs"] += 1
                    if perm and perm != sorted(perm):
                        res["vac"]["pool_perms_nonidentity"] += 1
                if sm in ("warm", "touched"):
                    res["vac"]["state_warm_runs"] += 1
                if sm.endswith("-legacy"):
                    res["vac"]["algorithm_switch_runs"] = res["vac"].get("algorithm_switch_runs", 0) + 1
                if sm.startswith("partial"):
                    res["vac"]["state_partial_runs"] = res["vac"].get("state_partial_runs", 0) + 1
                res["outcomes"].add(repr((bool(viol), info["pool_used"] > 0)))
                for sig, detail in viol:
                    if sig not in sigs:
                        sigs.add(sig)
                        res["viol"].append((sig, detail, {"part": "fs", "tree": tname, "order": order,
                                                          "jobs": jobs, "perm": perm, "state": sm, "upload": up}))
    res["outcomes"] = sorted(res["outcomes"])
    res["nontrivial"] = sorted(res["nontrivial"])
    res["sample"] = {"tree": tname, "creation_order": order, "jobs": [1, 2, 4], "pool completion orders": len(perms),
                     "state": ["none", "cold", "warm", "touched", "partial-first", "partial-last"]}
    return res


def run_threads(case):
    """The real thread pool (free-running): identifier must still be the reference one."""
    import dvc_data.hashfile.build as B

    res = {"n": 0, "trans": 0, "states": [], "outcomes": set(), "nontrivial": set(), "viol": [],
           "vac": {"real_pool_runs": 0}}
    tree = FS_TREES["big3"]
    want_oid = ref.tree_oid(fs_listing(tree))
    for jobs in (2, 4, None):
        for rep in range(case["reps"]):
            with World() as w:
                ws = w.p("ws")
                for rel in sorted(tree):
                    write_file(os.path.join(ws, *rel.split("/")), content(tree[rel]))
                odb = make_odb("local", w.p("odb"))
                _s, _m, obj = B.build(odb, ws, LFS, "md5", checksum_jobs=jobs)
                res["n"] += 1
                res["trans"] += 1
                res["vac"]["real_pool_runs"] += 1
                if obj.oid != want_oid:
                    res["viol"].append(("real-pool-identifier-differs", f"jobs={jobs}",
                                        {"part": "threads", "reps": 3}))
    res["outcomes"] = [len(res["viol"])]
    return res


def run_case(case):
    return {"pure": run_pure, "fs": run_fs, "threads": run_threads}[case["part"]](case)


def replay(case):
    if case["part"] == "pure":
        return check_pure(case["entries"], True)[0]
    if case["part"] == "fs":
        with World() as w:
            v = build_once(w, case["tree"], case["order"], case["jobs"], case["perm"], case["state"],
                           not case.get("upload"), upload=case.get("upload", False))[0]
            return [(s_ + "/upload", d_) for s_, d_ in v] if case.get("upload") else v
    r = run_threads(case)
    return [(s, d) for s, d, _ in r["viol"]]


def run(ctx):
    maxk = 5 if ctx.tier == "thorough" else 3
    ctx.rule = (
        f"pure: every entry set of <= {maxk} paths over {U} x {{h1,h2}} x every insertion permutation x "
        "metadata decorations (reference encoder, injectivity, round trip, every prefix); file system: 3 "
        "trees x every (quick: 6 rotations/reversals of) creation order x jobs {1,2,4} x every completion "
        "permutation of the hashing pool x state {none,cold,warm,touched,all-but-first-known,all-but-last-known}, _get_hashes with a 1-byte "
        "threshold; non-trivial = >= 2 entries / every fs run"
    )
    ctx.bound = {"paths": U, "max_entries": maxk, "fs_trees": {k: {r: s for r, (_f, s) in v.items()} for k, v in FS_TREES.items()}}
    ctx.assumptions = [
        "pool tasks hash disjoint files with state=None, so only their completion order reaches the "
        "consumer: enumerating completion permutations covers all pool schedules",
        "key parts never contain '/' (file-system names)",
    ]
    ctx.require("perms_gt1", "nested_prefixes", "pool_runs", "pool_perms_nonidentity", "state_warm_runs",
                "real_pool_runs", "state_partial_runs", "upload_builds", "algorithm_switch_runs")
    nsl = 16 if ctx.tier != "thorough" else 192
    cs = [{"part": "pure", "maxk": maxk, "slice": [i, nsl]} for i in range(nsl)]
    for tname, tree in FS_TREES.items():
        rels = sorted(tree)
        orders = [list(p) for p in itertools.permutations(rels)]
        if ctx.tier != "thorough":
            k = len(rels)
            orders = [rels[i:] + rels[:i] for i in range(k)] + [list(reversed(rels))]
            if k >= 3:
                orders.append([rels[1], rels[0]] + rels[2:])
        for o in orders:
            cs.append({"part": "fs", "tree": tname, "order": o})
    cs.append({"part": "threads", "reps": 3 if ctx.tier != "thorough" else 10})
    by_bytes = {}
    first = {}
    for case, res in ctx.pmap("run_case", cs, 1):
        bm = res.pop("bytes_map", None) if isinstance(res, dict) else None
        ctx.absorb(case, res, "run_case")
        first[json.dumps(case, sort_keys=True)] = res
        for b, sets in (bm or {}).items():
            by_bytes.setdefault(b, set()).update(tuple(map(tuple, s)) for s in sets)
    coll = {b: s for b, s in by_bytes.items() if len(s) > 1}
    ctx.extra["distinct_listings"] = len(by_bytes)
    if coll:
        b, s = next(iter(coll.items()))
        ctx.violation("two-entry-sets-serialise-to-same-bytes", {"part": "pure", "entries": dict(sorted(s)[0])},
                      f"{sorted(s)} -> {b}")
    ctx.determinism("run_case", cs[:2] + cs[nsl:nsl + 2], first)
