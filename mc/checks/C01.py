"""C01 object stores are content-addressed: every object is named by its own digest.

E2: breadth-first search over histories of stage / stage-with-upload / add /
transfer / index-save / migrate / gc operations over three stores (local,
base, legacy md5-dos2unix), with and without a shared hash-state; after every
step every store is walked and every object re-hashed independently.
"""

import os

from .. import ref
from ..lab import CONTENTS, LFS, hi, make_odb
from ..world import World, digest_obj, memfs_store_snapshot, store_snapshot, write_tree

TREES = {
    "D1": {"a": "x", "s/é": "crlf"},
    "D2": {"a": "x", "b": "x", "e": "e"},
    "D3": {"sp ace": "lf", "s/t/a": "bin"},
    "D4": {"L1": "big1", "L2": "big2", "a": "x", "m": "y"},   # two large files + small ones in one directory
    # contents whose legacy digest is delicate: a lone CR among CR LF pairs; CR LF text with a NUL after byte 512
    "D5": {"p": "lonecr", "q": "latenul"},
}
CONTENTS = dict(CONTENTS, big1=b"1" * (2**20 + 1), big2=b"2" * (2**20 + 1),
                lonecr=b"10%\r50%\r100%\r\ndone\r\n", latenul=b"row\r\n" * 120 + b"\x00tail\r\n")
STORES = {"L": ("local", "md5"), "B": ("base", "md5"), "G": ("local", "md5-dos2unix")}


def alphabet(tier):
    ops = []
    for t in TREES:
        if t == "D4":
            # the large-file tree only through the operations that hash / add its files
            ops += [("st", t, "L"), ("st", t, "B"), ("stu", t, "L"), ("save", t, "L")]
            continue
        if t == "D5":
            ops += [("st", t, "G"), ("st", t, "L")]
            continue
        for s in ("L", "B"):
            ops.append(("st", t, s))
            ops.append(("stu", t, s))
            ops.append(("save", t, s))
        ops.append(("st", t, "G"))
        ops.append(("xfer", "L", "B", t))
        ops.append(("xfer", "B", "L", t))
    for c in ("crlf", "e"):
        for s in ("L", "B", "G"):
            ops.append(("addf", c, s))
    ops.append(("mig", "G", "L"))
    ops.append(("mig", "L", "G"))   # into the legacy algorithm: hash-state rows recorded for md5 must not answer
    if tier == "thorough":
        ops.append(("mig", "G", "B"))
    for s in ("L", "B"):
        ops.append(("gc", s, "D1"))
        ops.append(("gc", s, "D2"))
    ops.append(("unprot", "L"))
    for t in ("D1", "D2"):
        ops.append(("edit", t))            # the user rewrites the first file: later staging is partially warm
        ops.append(("edit-last", t))       # ... or the last one (listing order is the file system's business)
        ops.append(("stur", t, "L"))       # upload staging while the source files are being appended to
    return ops


def targets(op, cur):
    """(store, oids) the operation is asked to add."""
    if op[0] in ("st", "stu", "save", "stur"):
        hn = STORES[op[2]][1]
        listing = {rel: ref.digest(hn, b) for rel, b in cur[op[1]].items()}
        if op[0] == "save":
            # index save stores one directory object per sub-directory entry (no root entry)
            out = set(listing.values())
            prefixes = {tuple(rel.split("/")[:i]) for rel in listing for i in range(1, len(rel.split("/")))}
            for pre in prefixes:
                p = "/".join(pre) + "/"
                out.add(ref.tree_oid({rel[len(p):]: h for rel, h in listing.items() if rel.startswith(p)}))
            return op[2], out
        return op[2], set(listing.values()) | {ref.tree_oid(listing)}
    if op[0] == "addf":
        return op[2], {ref.digest(STORES[op[2]][1], CONTENTS[op[1]])}
    if op[0] == "xfer":
        listing = {rel: ref.md5(b) for rel, b in cur[op[3]].items()}
        return op[2], set(listing.values()) | {ref.tree_oid(listing)}
    return None, set()


def audit_store(path, kind, hash_name, label, unprot=()):
    viol = []
    snap = store_snapshot(path)
    nobj = 0
    for key, (data, mode) in snap.items():
        if isinstance(key, tuple):
            if key[0] == "JUNK":
                viol.append((f"non-object-file-in-store/{label}", f"{key[1]}"))
            continue
        nobj += 1
        if not isinstance(data, bytes):
            viol.append((f"object-is-not-a-regular-file/{label}", f"{key}: {data}"))
            continue
        if key.endswith(".dir"):
            if ref.md5(data) + ".dir" != key:
                viol.append((f"dir-object-name-does-not-match-bytes/{label}", f"{key} vs {ref.md5(data)}"))
            listing = ref.parse_listing(data)
            if listing is None or any(v is None for v in listing.values()):
                viol.append((f"dir-object-not-a-listing/{label}", f"{key}: {data[:80]!r}"))
            elif ref.tree_bytes(listing) != data:
                viol.append((f"dir-object-bytes-not-canonical/{label}", f"{key}: {data[:120]!r}"))
        else:
            if ref.digest(hash_name, data) != key:
                viol.append((f"file-object-name-does-not-match-bytes/{label}",
                             f"{key} holds bytes with digest {ref.digest(hash_name, data)} ({data[:30]!r})"))
        if kind == "local" and mode != 0o444 and key not in unprot:
            viol.append((f"local-object-not-read-only/{label}", f"{key} mode={oct(mode) if mode is not None else None}"))
    return viol, nobj, snap


def run_history(hist, with_state):
    from dvc_data.hashfile.build import build
    from dvc_data.hashfile.db.migrate import migrate, prepare
    from dvc_data.hashfile.gc import gc
    from dvc_data.hashfile.state import State
    from dvc_data.hashfile.transfer import transfer
    from dvc_data.index import build as ibuild
    from dvc_data.index import md5 as imd5
    from dvc_data.index import save as isave

    viol = []
    steps = 0
    import dvc_data.hashfile.build as _B

    from . import C03 as _C03

    # the hashing pool returns its results in reversed completion order (deterministic, and a legal schedule)
    _B.ThreadPoolExecutor = _C03.PermExec
    _C03._PERM.update(order=[1, 0], used=0, sizes=[])
    with World() as w:
        cur = {}
        for t, files in TREES.items():
            cur[t] = {rel: CONTENTS[c] for rel, c in files.items()}
            write_tree(w.p("ws", t), cur[t])

        class MutatingFS(type(LFS)):
            """Every binary read-open of a workspace file first appends to it (a concurrent writer)."""

            def open(self, path, mode="r", **kw):
                if "b" in mode and "r" in mode and path.startswith(w.p("ws")):
                    with open(path, "ab") as fh:
                        fh.write(b"+")
                return super().open(path, mode=mode, **kw)
        for c in ("crlf", "e"):
            write_tree(w.p("single"), {c: CONTENTS[c]})
        state = State(root_dir=w.root, tmp_dir=w.p("tmp")) if with_state else None
        odbs = {}
        for s, (kind, hn) in STORES.items():
            cfg = {"hash_name": hn}
            if state is not None:
                cfg["state"] = state
            # (the stores live below a directory whose name contains ".dir")
            odbs[s] = make_odb(kind, w.p("stores.dirs", s), **cfg)
        stagings = set()
        unprot = {s: set() for s in STORES}
        try:
            for i, op in enumerate(hist):
                steps += 1
                try:
                    if op[0] in ("st", "stu"):
                        odb = odbs[op[2]]
                        hn = STORES[op[2]][1]
                        staging, _m, obj = build(odb, w.p("ws", op[1]), LFS, hn, upload=op[0] == "stu")
                        stagings.add(staging.path)
                        transfer(staging, odb, {obj.hash_info}, shallow=False, hardlink=False)
                    elif op[0] == "stur":
                        odb = odbs[op[2]]
                        mfs = MutatingFS()
                        staging, _m, obj = build(odb, w.p("ws", op[1]), mfs, "md5", upload=True)
                        stagings.add(staging.path)
                        transfer(staging, odb, {obj.hash_info}, shallow=False, hardlink=False)
                    elif op[0] in ("edit", "edit-last"):
                        first = sorted(cur[op[1]])[0 if op[0] == "edit" else -1]
                        pth = os.path.join(w.p("ws", op[1]), *first.split("/"))
                        with open(pth, "wb") as fh:
                            fh.write(b"edited-%d" % i)
                        from ..world import stamp

                        stamp(pth)
                    elif op[0] == "addf":
                        odb = odbs[op[2]]
                        hn = STORES[op[2]][1]
                        staging, _m, obj = build(odb, w.p("single", op[1]), LFS, hn)
                        stagings.add(staging.path)
                        transfer(staging, odb, {obj.hash_info}, hardlink=False)
                    elif op[0] == "save":
                        idx = ibuild(w.p("ws", op[1]), LFS)
                        idx = imd5(idx, state=state)
                        isave(idx, odb=odbs[op[2]])
                    elif op[0] == "xfer":
                        src, dst = odbs[op[1]], odbs[op[2]]
                        listing = {rel: ref.md5(b) for rel, b in cur[op[3]].items()}
                        ids = {hi(ref.tree_oid(listing))} | {hi(h) for h in listing.values()}
                        transfer(src, dst, ids, hardlink=False)
                    elif op[0] == "mig":
                        migrate(prepare(odbs[op[1]], odbs[op[2]]))
                    elif op[0] == "unprot":
                        # the user (or an interrupted run) left every object writable
                        for key, (_d, _m) in store_snapshot(odbs[op[1]].path).items():
                            if isinstance(key, str):
                                os.chmod(odbs[op[1]].oid_to_path(key), 0o644)
                        # (hard links made by a migration share the mode with the other store)
                        for s2 in STORES:
                            for key, (_d, m2) in store_snapshot(odbs[s2].path).items():
                                if isinstance(key, str) and m2 != 0o444 and STORES[s2][0] == "local":
                                    unprot[s2].add(key)
                    elif op[0] == "gc":
                        listing = {rel: ref.md5(b) for rel, b in cur[op[2]].items()}
                        try:
                            gc(odbs[op[1]], {hi(ref.tree_oid(listing))}, shallow=False)
                        except FileNotFoundError:
                            pass  # the used directory object is not in this store
                except Exception as e:  # noqa: BLE001
                    viol.append((f"operation-raises-{type(e).__name__}/{op[0]}", f"step {i} {op}: {e!r}"))
                # audit every store after every step
                if op[0] in ("edit", "edit-last", "stur"):
                    from ..world import walk_files

                    cur[op[1]] = {k: v for k, v in walk_files(w.p("ws", op[1])).items()}
                ts, toids = targets(op, cur)
                if ts is not None:
                    unprot[ts] -= toids
                if op[0] == "mig":
                    for key, (data, _m) in store_snapshot(odbs[op[1]].path).items():
                        if isinstance(key, str) and isinstance(data, bytes):
                            unprot[op[2]].discard(
                                ref.digest(STORES[op[2]][1], data) + (".dir" if key.endswith(".dir") else ""))
                            if STORES[op[2]][0] == "local" and _m == 0o444:
                                unprot[op[1]].discard(key)  # hard-linked: protected together (copies stay as they were)
                for s, (kind, hn) in STORES.items():
                    v, _n, snap = audit_store(odbs[s].path, kind, hn, s, unprot[s])
                    viol.extend((sig, f"after step {i} {op} of {hist}: {d}") for sig, d in v)
                for sp in stagings:
                    msnap = memfs_store_snapshot(sp)
                    for key, (data, _m) in msnap.items():
                        if isinstance(key, str) and key.endswith(".dir") and ref.md5(data) + ".dir" != key:
                            viol.append(("staged-dir-object-name-does-not-match-bytes", f"{key} after {op}"))
                if op[0] == "mig":
                    # every source object has a destination object named by the destination
                    # algorithm's digest of the same bytes
                    ssnap = store_snapshot(odbs[op[1]].path)
                    dsnap = store_snapshot(odbs[op[2]].path)
                    for key, (data, _m) in ssnap.items():
                        if not isinstance(key, str):
                            continue
                        want = ref.digest(STORES[op[2]][1], data) + (".dir" if key.endswith(".dir") else "")
                        # (under the legacy algorithm CRLF / LF twins share a name: any bytes with that digest do)
                        if want not in dsnap or not isinstance(dsnap[want][0], bytes) or (
                                dsnap[want][0] != data
                                and ref.digest(STORES[op[2]][1], dsnap[want][0]) != want.split(".")[0]):
                            viol.append(("migrated-object-missing-or-misnamed", f"{key} -> {want}"))
            state_key = []
            for s in STORES:
                snap = store_snapshot(odbs[s].path)
                state_key.append(tuple(sorted((k, v[1]) for k, v in snap.items() if isinstance(k, str))))
            canon = digest_obj(state_key)
            nobjs = sum(len(x) for x in state_key)
        finally:
            if state is not None:
                state.close()
    return viol, canon, steps, nobjs


# ---- part 2: a changing workspace and damaged source stores ---------------------------
# Small alphabets, no de-duplication: every history to the stated depth is executed.

R_TREE = {"a": "x", "b": "y", "s/c": "x"}
R_STORES = {"L": "local", "B": "base"}
R_NEW = {"n1": b"new-one\n", "x": None}


def alphabet2(kind):
    if kind == "rearr":
        return [("so", "L"), ("so", "B"), ("st", "L"), ("st", "B"), ("mv", "a", "b"), ("mv", "b", "a"),
                ("wr", "a", "n1"), ("wr", "b", "x")]
    return [("st", "L"), ("st", "B"), ("cor", "L", "dir"), ("cor", "L", "file"), ("cor", "B", "dir"),
            ("cor", "B", "file"), ("xv", "L", "B"), ("xv", "B", "L"), ("wr", "a", "n1")]


def run_history2(hist, with_state):
    """Stage-only / stage+transfer against a workspace whose files are renamed and rewritten between
    builds; verifying transfers out of stores some of whose (protected) objects were damaged."""
    from dvc_data.hashfile.build import build
    from dvc_data.hashfile.state import State
    from dvc_data.hashfile.transfer import transfer

    from ..world import stamp, walk_files

    viol = []
    info = {"staged_only": 0, "moves": 0, "damaged": 0, "verified_transfers": 0, "objects_audited": 0}
    with World() as w:
        ws = w.p("ws", "R")
        write_tree(ws, {rel: CONTENTS[c] for rel, c in R_TREE.items()})
        state = State(root_dir=w.root, tmp_dir=w.p("tmp")) if with_state else None
        odbs = {}
        for s, kind in R_STORES.items():
            cfg = {"hash_name": "md5"}
            if state is not None:
                cfg["state"] = state
            # (the stores live below a directory whose name contains ".dir")
            odbs[s] = make_odb(kind, w.p("stores.dirs", s), **cfg)
        damaged = {s: set() for s in R_STORES}
        try:
            for i, op in enumerate(hist):
                cur = walk_files(ws)
                listing = {rel: ref.md5(b) for rel, b in cur.items()}
                try:
                    if op[0] in ("so", "st"):
                        odb = odbs[op[1]]
                        staging, _m, obj = build(odb, ws, LFS, "md5")
                        if obj.hash_info.value != ref.tree_oid(listing):
                            viol.append(("staged-identifier-differs-from-workspace", f"step {i} {op} of {hist}"))
                        if op[0] == "st":
                            transfer(staging, odb, {obj.hash_info}, shallow=False, hardlink=False)
                        else:
                            info["staged_only"] += 1
                    elif op[0] == "mv":
                        src, dst = (os.path.join(ws, n) for n in op[1:])
                        if os.path.exists(src):
                            os.replace(src, dst)
                            stamp(dst)
                            info["moves"] += 1
                    elif op[0] == "wr":
                        data = R_NEW[op[2]] if R_NEW[op[2]] is not None else CONTENTS[op[2]]
                        pth = os.path.join(ws, op[1])
                        with open(pth, "wb") as fh:
                            fh.write(data)
                        stamp(pth)
                    elif op[0] == "cor":
                        odb = odbs[op[1]]
                        oid = ref.tree_oid(listing) if op[2] == "dir" else listing.get("a") or sorted(listing.values())[0]
                        pth = odb.oid_to_path(oid)
                        if os.path.exists(pth):
                            mode = os.stat(pth).st_mode & 0o777
                            os.chmod(pth, 0o644)
                            if op[2] == "dir":
                                # still a well-formed listing, of other content
                                other = dict(listing)
                                k0 = sorted(other)[0]
                                other[k0] = ref.md5(b"some other bytes")
                                data = ref.tree_bytes(other)
                            else:
                                data = open(pth, "rb").read() + b"#"
                            with open(pth, "wb") as fh:
                                fh.write(data)
                            os.chmod(pth, mode)
                            damaged[op[1]].add(oid)
                            info["damaged"] += 1
                    elif op[0] == "xv":
                        src, dst = odbs[op[1]], odbs[op[2]]
                        ids = {hi(ref.tree_oid(listing))} | {hi(h) for h in listing.values()}
                        transfer(src, dst, ids, hardlink=False, verify=True)
                        info["verified_transfers"] += 1
                except Exception as e:  # noqa: BLE001
                    if not (op[0] == "xv" and isinstance(e, FileNotFoundError)):
                        viol.append((f"operation-raises-{type(e).__name__}/{op[0]}", f"step {i} {op} of {hist}: {e!r}"))
                for s, kind in R_STORES.items():
                    v, nobj, _snap = audit_store(odbs[s].path, kind, "md5", s)
                    info["objects_audited"] += nobj
                    for sig, d in v:
                        oid = d.split(" ")[0].rstrip(":")
                        if oid in damaged[s] and "read-only" not in sig:
                            continue  # damaged by the harness in this very store
                        viol.append((sig, f"after step {i} {op} of {hist}: {d}"))
        finally:
            if state is not None:
                state.close()
    return viol, info


def run_case2(case):
    from . import C03 as _C03
    import dvc_data.hashfile.build as _B

    _B.ThreadPoolExecutor = _C03.PermExec
    _C03._PERM.update(order=[1, 0], used=0, sizes=[])
    res = {"n": 0, "trans": 0, "states": [], "outcomes": set(), "nontrivial": set(), "viol": [],
           "vac": {"staged_only": 0, "workspace_moves": 0, "damaged_objects": 0, "verified_transfers": 0}}
    sigs = set()
    ops = alphabet2(case["kind"])
    import itertools as _it

    for tail in _it.product(ops, repeat=case["depth"] - len(case["prefix"])):
        hist = [tuple(o) for o in case["prefix"]] + list(tail)
        viol, info = run_history2(hist, case["state"])
        res["n"] += 1
        res["trans"] += len(hist)
        d = digest_obj((case["kind"], hist, case["state"]))
        res["states"].append(d)
        if info["objects_audited"] >= 3:
            res["nontrivial"].add(d)
        res["vac"]["staged_only"] += info["staged_only"]
        res["vac"]["workspace_moves"] += info["moves"]
        res["vac"]["damaged_objects"] += info["damaged"]
        res["vac"]["verified_transfers"] += info["verified_transfers"]
        res["outcomes"].add(repr(sorted({v[0] for v in viol})))
        for sig, detail in viol:
            if sig not in sigs:
                sigs.add(sig)
                res["viol"].append((sig, detail, {"part": case["kind"], "hist": [list(o) for o in hist],
                                                  "state": case["state"]}))
    res["outcomes"] = sorted(res["outcomes"])
    res["nontrivial"] = sorted(res["nontrivial"])
    return res


def run_case(case):
    hist = [tuple(o) for o in case["hist"]]
    viol, canon, steps, nobjs = run_history(hist, case["state"])
    res = {"n": 1, "trans": steps, "state": canon + ("S" if case["state"] else "N"),
           "outcome": repr(sorted({v[0] for v in viol})), "nontrivial": len(hist) >= 2 and nobjs >= 3,
           "viol": [], "vac": {"objects_audited": nobjs * steps,
                               "migrations": sum(1 for o in hist if o[0] == "mig"),
                               "uploads": sum(1 for o in hist if o[0] == "stu")}}
    seen = set()
    for sig, detail in viol:
        if sig not in seen:
            seen.add(sig)
            res["viol"].append((sig, detail, case))
    return res


def replay(case):
    if case.get("part") in ("rearr", "damaged"):
        from . import C03 as _C03
        import dvc_data.hashfile.build as _B

        _B.ThreadPoolExecutor = _C03.PermExec
        _C03._PERM.update(order=[1, 0], used=0, sizes=[])
        return run_history2([tuple(o) for o in case["hist"]], case["state"])[0]
    return run_history([tuple(o) for o in case["hist"]], case["state"])[0]


def run(ctx):
    import json

    depth = 4 if ctx.tier == "thorough" else 3
    nodedup = 2
    ops = alphabet(ctx.tier)
    ctx.rule = (
        f"E2: BFS to depth {depth} over {len(ops)} operations (stage+transfer, stage-with-upload+transfer, "
        "index build/md5/save, single-file add, closed store-to-store transfer, migrate legacy->md5, expanding "
        "gc) on stores {LocalHashFileDB md5, HashFileDB md5, LocalHashFileDB md5-dos2unix} and 3 trees "
        "(duplicates, empty file, non-ASCII and spaced names, CRLF text, binary), with and without one shared "
        "State; all histories to depth 2, deeper ones only from new canonical states (set of (oid, mode) per "
        "store); after every step every object of every store is re-hashed with hashlib; non-trivial = "
        ">= 2 operations and >= 3 objects; part 2 (no de-duplication): every history to depth 4 of {stage only, "
        "stage+transfer} x 2 stores and {rename a->b, b->a, rewrite a, rewrite b} on one tree with duplicate "
        "content, and every history to depth 3 of {stage+transfer, damage a protected directory / file object "
        "in place, verifying transfer between the stores, rewrite a}"
    )
    ctx.bound = {"depth": depth, "operations": len(ops), "trees": TREES, "stores": STORES}
    ctx.assumptions = [
        "files whose leaf name ends in .tmp are temporary names (upload staging leaves them at the store "
        "root by design) and are not objects",
        "canonicalisation keeps (oid, mode) per store and drops inode numbers, timestamps, temp names and "
        "hash-state rows: no operation of the alphabet files content under a name derived from them",
    ]
    ctx.require("objects_audited", "migrations", "uploads", "staged_only", "workspace_moves", "damaged_objects",
                "verified_transfers")
    d2 = {"rearr": 5 if ctx.tier == "thorough" else 4, "damaged": 4 if ctx.tier == "thorough" else 3}
    ctx.bound["part2"] = {"tree": R_TREE, "depth": d2, "rearr": [list(o) for o in alphabet2("rearr")],
                          "damaged": [list(o) for o in alphabet2("damaged")]}
    cs2 = []
    for kind in ("rearr", "damaged"):
        ops2 = alphabet2(kind)
        for with_state in (False, True):
            for o1 in ops2:
                for o2 in ops2:
                    cs2.append({"kind": kind, "depth": d2[kind], "prefix": [list(o1), list(o2)], "state": with_state})
    ctx.run_cases("run_case2", cs2, chunksize=1, det=2)
    for with_state in (False, True):
        seen = set()
        frontier = [[]]
        for d in range(1, depth + 1):
            cases = [{"hist": [list(o) for o in h] + [list(op)], "state": with_state}
                     for h in frontier for op in ops]
            nxt = []
            for case, res in ctx.run_level("run_case", cases, det=6 if d == 2 else 0):
                st = res.get("state")
                if st is None:
                    continue
                if st not in seen or d < nodedup:
                    seen.add(st)
                    nxt.append([tuple(o) for o in case["hist"]])
            frontier = sorted(nxt)
            ctx.extra[f"bfs_state={with_state}_level_{d}"] = {"executed": len(cases), "extended": len(frontier)}
        if frontier:
            ctx.sample({"with_state": with_state, "history": [list(o) for o in frontier[len(frontier) // 2]]})
