"""C10 object checkout converges, is idempotent, honours link types, spares the cache.

E2: (prior workspace produced by a checkout with link type L1 + a user mutation)
x target x configured link type L2 x store class x state x (another workspace
linked to the same cache); sequence checkout(force); checkout; checkout(relink).
"""

import os

from ..colab import (
    CONTENTS,
    LFS,
    MD5,
    TREES,
    UNCACHED,
    fill_cache,
    link_kind,
    load_obj,
    lstat_map,
    make_odb,
    want_files,
)
from ..world import World, digest_obj, store_snapshot, walk_files, write_file

L1S = ["copy", "hardlink", "symlink"]
L2S = ["copy", "hardlink", "symlink", "default"]
MUTS = ["none", "delete-a", "edit-a-uncached", "edit-a-cached", "add-untracked", "retype-a", "mtime0", "relocate-links"]
OTHERS = ["none", "hardlink", "symlink"]


class LogIgnore:
    """An Ignore implementation (the interface of dvc_data.hashfile._ignore): hides *.log files and scratch/."""

    def walk(self, fs, path, **kwargs):
        for root, dirs, files in fs.walk(path, **kwargs):
            dirs[:] = [d for d in dirs if d != "scratch"]
            yield root, dirs, [f for f in files if not f.endswith(".log")]

    def find(self, fs, path):
        for root, _dirs, files in self.walk(fs, path):
            for name in files:
                yield f"{root}{fs.sep}{name}"


IGNORED = {"run.log": b"log line\n", "s/debug.log": b"more log\n", "scratch/notes.txt": b"my notes"}


def types_of(l):
    return ["reflink", "copy"] if l == "default" else [l]


def one_exec(cfg):
    from dvc_data.hashfile.checkout import checkout
    from dvc_data.hashfile.state import State
    from dvc_data.hashfile.utils import get_mtime_and_size

    viol = []
    info = {}
    with World() as w:
        state = State(root_dir=w.root, tmp_dir=w.p("tmp")) if cfg["state"] else None
        try:
            kw = {"state": state} if state is not None else {}
            odb = make_odb(cfg["kind"], w.p("cache"), **kw)
            fill_cache(odb, ["A", "B", "N", "P"], extra=["x", "y", "e"])
            cache0 = {k: v[0] for k, v in store_snapshot(odb.path).items() if isinstance(k, str)}
            ws = w.p("ws")
            env = cfg.get("env", "plain")
            single0 = cfg["t0"] not in TREES
            wsa = ws + os.sep if env == "trail" and not single0 else ws   # the same directory, other spelling
            ckw = {"ignore": LogIgnore()} if env == "ignore" and not single0 else {}
            if cfg["other"] != "none":
                odb.cache_types = [cfg["other"]]
                checkout(w.p("ws_other"), LFS, load_obj(odb, cfg["t0"]), odb, force=True, state=state)
            odb.cache_types = types_of(cfg["l1"])
            checkout(wsa, LFS, load_obj(odb, cfg["t0"]), odb, force=True, state=state, **ckw)
            if ckw:
                for rel, data in IGNORED.items():
                    write_file(os.path.join(ws, *rel.split("/")), data)
            # user mutation (kind-preserving)
            single = cfg["t0"] not in TREES
            fa = None if single else ("a" if "a" in TREES[cfg["t0"]] else sorted(TREES[cfg["t0"]])[0])
            pa = ws if single else os.path.join(ws, *fa.split("/"))
            m = cfg["mut"]
            if single and m == "add-untracked":
                m = "none"
            if m == "delete-a":
                os.unlink(pa)
            elif m in ("edit-a-uncached", "edit-a-cached"):
                os.unlink(pa)
                write_file(pa, UNCACHED if m == "edit-a-uncached" else CONTENTS["w" if False else "y"])
            elif m == "add-untracked":
                write_file(os.path.join(ws, "s", "untracked"), b"untracked")
            elif m == "mtime0":
                # a file's timestamp is the epoch (restored from an archive with zeroed times)
                os.utime(pa, ns=(0, 0))
            elif m == "relocate-links":
                # the symlinks of the prior checkout point into another copy of the cache (moved / old cache)
                import shutil

                if cfg["l1"] == "symlink":
                    shutil.copytree(odb.path, w.p("cache-old"), symlinks=True)
                    for root_, _d, fns in os.walk(ws):
                        for fn in fns:
                            lp = os.path.join(root_, fn)
                            if os.path.islink(lp):
                                tgt = os.readlink(lp)
                                if tgt.startswith(odb.path):
                                    os.unlink(lp)
                                    os.symlink(w.p("cache-old") + tgt[len(odb.path):], lp)
                    if single and os.path.islink(ws):
                        tgt = os.readlink(ws)
                        os.unlink(ws)
                        os.symlink(w.p("cache-old") + tgt[len(odb.path):], ws)
            elif m == "retype-a":
                data = CONTENTS[cfg["t0"] if single else TREES[cfg["t0"]][fa]]
                os.unlink(pa)
                write_file(pa, data)  # same bytes, now an independent copy with a new inode
            # phase 2: forced checkout of the target with the configured link type
            odb.cache_types = types_of(cfg["l2"])
            target = load_obj(odb, cfg["t1"])
            want = want_files(cfg["t1"])
            if ckw:
                want = dict(want, **IGNORED)   # what the filter hides is not checkout's business
            try:
                checkout(wsa, LFS, target, odb, force=True, state=state, **ckw)
            except Exception as e:  # noqa: BLE001
                viol.append((f"forced-checkout-raises-{type(e).__name__}", repr(e)))
                return viol, info
            got = walk_files(ws)
            if got != want:
                lost = sorted(set(want) - set(got))
                extra = sorted(set(got) - set(want))
                kind = "missing-file" if lost else ("leftover-file" if extra else "wrong-bytes")
                viol.append((f"forced-checkout-not-exact/{kind}", f"lost={lost} extra={extra}"))
            # phase 3: second checkout has nothing to do
            before = lstat_map(ws)
            target = load_obj(odb, cfg["t1"])
            r2 = checkout(wsa, LFS, target, odb, force=True, state=state, **ckw)
            after = lstat_map(ws)
            if r2:
                viol.append(("second-checkout-reports-work", f"returned {r2!r}"))
            if before != after:
                ch = sorted(k for k in set(before) | set(after) if before.get(k) != after.get(k))
                viol.append(("second-checkout-touched-workspace", f"{ch}"))
            # phase 4: relinking checkout makes every file the configured link type
            target = load_obj(odb, cfg["t1"])
            try:
                checkout(wsa, LFS, target, odb, force=True, relink=True, state=state, **ckw)
            except Exception as e:  # noqa: BLE001
                viol.append((f"relink-checkout-raises-{type(e).__name__}", repr(e)))
                return viol, info
            if walk_files(ws) != want:
                viol.append(("relink-changed-content", ""))
            expect = "copy" if cfg["l2"] == "default" else cfg["l2"]
            kinds = {}
            for rel, c in (TREES[cfg["t1"]].items() if cfg["t1"] in TREES else [("", cfg["t1"])]):
                p = os.path.join(ws, *rel.split("/")) if rel else ws
                k = link_kind(p, odb, MD5[c], CONTENTS[c])
                kinds[rel] = k
                ok = k == expect or (expect == "hardlink" and CONTENTS[c] == b"" and k == "copy")
                if not ok:
                    viol.append((f"wrong-link-type-after-relink/{k}-instead-of-{expect}",
                                 f"{rel} is {k}; existing={cfg['l1']} other-workspace={cfg['other']} mut={cfg['mut']}"))
            info["kinds"] = kinds
            # phase 5: a further relinking checkout to a third link type (e.g. symlink -> hardlink -> symlink)
            l3 = cfg.get("l3")
            if l3:
                odb.cache_types = [l3]
                target = load_obj(odb, cfg["t1"])
                try:
                    checkout(wsa, LFS, target, odb, force=True, relink=True, state=state, **ckw)
                except Exception as e:  # noqa: BLE001
                    viol.append((f"relink-checkout-raises-{type(e).__name__}", repr(e)))
                    return viol, info
                if walk_files(ws) != want:
                    viol.append(("relink-changed-content", "third link type"))
                for rel, c in (TREES[cfg["t1"]].items() if cfg["t1"] in TREES else [("", cfg["t1"])]):
                    p = os.path.join(ws, *rel.split("/")) if rel else ws
                    k = link_kind(p, odb, MD5[c], CONTENTS[c])
                    ok = k == l3 or (l3 == "hardlink" and CONTENTS[c] == b"" and k == "copy")
                    if not ok:
                        viol.append((f"wrong-link-type-after-relink/{k}-instead-of-{l3}",
                                     f"{rel} is {k}; history {cfg['l1']} -> {cfg['l2']} -> {l3}"))
                info["kinds3"] = sorted({link_kind(os.path.join(ws, *r.split("/")) if r else ws, odb, MD5[c], CONTENTS[c])
                                         for r, c in (TREES[cfg["t1"]].items() if cfg["t1"] in TREES else [("", cfg["t1"])])})
            # cache bytes unchanged, still protected
            snap = store_snapshot(odb.path)
            cache1 = {k: v[0] for k, v in snap.items() if isinstance(k, str)}
            if cache1 != cache0:
                ch = sorted(k for k in set(cache0) | set(cache1) if cache0.get(k) != cache1.get(k))
                viol.append(("cache-object-bytes-changed", f"{ch}"))
            if cfg["kind"] == "local":
                unprot = [k for k, v in snap.items() if isinstance(k, str) and v[1] != 0o444]
                if unprot:
                    viol.append(("cache-object-left-unprotected", f"{unprot}"))
            # link record matches the resulting workspace
            if state is not None:
                rel = os.path.relpath(ws, w.root)
                rec = state.links.get(rel)
                mtime, _size = get_mtime_and_size(ws, LFS, ckw.get("ignore"))
                ino = os.lstat(ws).st_ino
                if single and os.path.islink(ws):
                    # (a symlinked single file: the token describes the link target, as the library computes it)
                    pass
                if rec is None:
                    viol.append(("link-record-missing", rel))
                elif tuple(rec) != (ino, mtime):
                    viol.append(("link-record-does-not-match-workspace", f"{rec} != {(ino, mtime)}"))
        finally:
            if state is not None:
                state.close()
    return viol, info


def bulk_exec(kind, with_state):
    """A directory of 1300 files (beyond every batching constant): checkout, checkout again, relink."""
    from dvc_data.hashfile import load
    from dvc_data.hashfile.checkout import checkout
    from dvc_data.hashfile.state import State

    from .. import ref
    from ..lab import BULK, BULK_MD5, hi, put_raw

    viol = []
    with World() as w:
        state = State(root_dir=w.root, tmp_dir=w.p("tmp")) if with_state else None
        try:
            odb = make_odb(kind, w.p("cache"), **({"state": state} if state is not None else {}))
            lst = {f"f{i:04d}": BULK_MD5[c] for i, c in enumerate(BULK)}
            for c, data in BULK.items():
                put_raw(odb, BULK_MD5[c], data)
            put_raw(odb, ref.tree_oid(lst), ref.tree_bytes(lst))
            want = {f"f{i:04d}": BULK[c] for i, c in enumerate(BULK)}
            ws = w.p("ws")
            odb.cache_types = ["copy"]
            for step, kw in (("first", {}), ("second", {}), ("relink", {"relink": True})):
                if step == "relink":
                    odb.cache_types = ["hardlink"]
                try:
                    r = checkout(ws, LFS, load(odb, hi(ref.tree_oid(lst))), odb, force=True, state=state, **kw)
                except Exception as e:  # noqa: BLE001
                    viol.append((f"bulk-checkout-raises-{type(e).__name__}/{step}", repr(e)[:300]))
                    break
                if walk_files(ws) != want:
                    viol.append((f"bulk-checkout-not-exact/{step}", ""))
                if step == "second" and r:
                    viol.append(("bulk-second-checkout-reports-work", repr(r)))
        finally:
            if state is not None:
                state.close()
    return viol


# ---- recovery: a fault during one forced checkout, then the same call again -------------------------------

def recovery_exec(cfg):
    """cfg: kind, link, state, t0, t1, mut, fault, victim[, wipe].

    rm-refused: removing one workspace path fails (PermissionError) during the forced checkout, then is permitted;
    object-missing: one of the target's objects is not in the cache during the first attempt (then restored; the
    user may wipe the partial workspace in between); cache-chmod-refused: the cache's objects are writable and its
    file system refuses chmod (read-only, Samba) - for the whole run.  A call that returns normally must have
    produced the target; once the fault is gone the usual sequence must hold."""
    import errno
    import shutil

    from dvc_data.hashfile.checkout import checkout
    from dvc_data.hashfile.state import State

    from ..lab import RmFaultFS, put_raw

    viol = []
    info = {"first": None}
    fault = cfg["fault"]
    o_chmod = os.chmod
    with World() as w:
        state = State(root_dir=w.root, tmp_dir=w.p("tmp")) if cfg["state"] else None
        try:
            fs_ = RmFaultFS()
            kw = {"state": state} if state is not None else {}
            odb = make_odb(cfg["kind"], w.p("cache"), fs=fs_, **kw)
            fill_cache(odb, ["A", "B", "N", "P"], extra=["x", "y", "e"])
            odb.cache_types = [cfg["link"]]
            ws = w.p("ws")
            checkout(ws, fs_, load_obj(odb, cfg["t0"]), odb, force=True, state=state)
            if cfg["mut"] == "edit-a-uncached":
                pa = os.path.join(ws, "a")
                os.unlink(pa)
                write_file(pa, UNCACHED)
            cache0 = {k: v[0] for k, v in store_snapshot(odb.path).items() if isinstance(k, str)}
            want = want_files(cfg["t1"])
            restore = None
            if fault == "rm-refused":
                fs_.deny = frozenset([os.path.join(ws, *cfg["victim"].split("/"))])
            elif fault == "object-missing":
                vp = odb.oid_to_path(MD5[cfg["victim"]])
                os.chmod(vp, 0o644)
                os.unlink(vp)
                restore = lambda: put_raw(odb, MD5[cfg["victim"]], CONTENTS[cfg["victim"]])  # noqa: E731
            elif fault == "cache-chmod-refused":
                for root_, _d, fns in os.walk(odb.path):
                    for fn in fns:
                        o_chmod(os.path.join(root_, fn), 0o644)

                def chmod_(path, mode, *a, **k):
                    if isinstance(path, str) and path.startswith(odb.path + os.sep):
                        info["chmod_refused"] = info.get("chmod_refused", 0) + 1
                        raise OSError(errno.EROFS, "injected: read-only file system", path)
                    return o_chmod(path, mode, *a, **k)

                os.chmod = chmod_
            if fault != "cache-chmod-refused":
                try:
                    checkout(ws, fs_, load_obj(odb, cfg["t1"]), odb, force=True, state=state)
                    info["first"] = "ok"
                except Exception as e:  # noqa: BLE001
                    info["first"] = type(e).__name__
                info["denied"] = fs_.denied
                if info["first"] == "ok" and (walk_files(ws) if os.path.lexists(ws) else {}) != want:
                    viol.append(("checkout-returned-normally-but-workspace-is-not-the-target",
                                 f"{cfg}: {sorted(walk_files(ws))} instead of {sorted(want)}"))
                fs_.deny = frozenset()
                if restore:
                    restore()
                if cfg.get("wipe") and os.path.lexists(ws):
                    # the user wipes the partial result before trying again
                    if os.path.isdir(ws) and not os.path.islink(ws):
                        shutil.rmtree(ws)
                    else:
                        os.unlink(ws)
            # the usual sequence: forced checkout, second checkout, relinking checkout
            try:
                checkout(ws, fs_, load_obj(odb, cfg["t1"]), odb, force=True, state=state)
            except Exception as e:  # noqa: BLE001
                viol.append((f"forced-checkout-raises-{type(e).__name__}", f"{cfg} first={info['first']}: {e!r}"))
                return viol, info
            got = walk_files(ws)
            if got != want:
                lost = sorted(set(want) - set(got))
                extra = sorted(set(got) - set(want))
                kind = "missing-file" if lost else ("leftover-file" if extra else "wrong-bytes")
                viol.append((f"forced-checkout-not-exact/{kind}", f"lost={lost} extra={extra} first={info['first']}"))
            r2 = checkout(ws, fs_, load_obj(odb, cfg["t1"]), odb, force=True, state=state)
            if r2:
                viol.append(("second-checkout-reports-work", f"returned {r2!r}"))
            try:
                checkout(ws, fs_, load_obj(odb, cfg["t1"]), odb, force=True, relink=True, state=state)
            except Exception as e:  # noqa: BLE001
                viol.append((f"relink-checkout-raises-{type(e).__name__}", repr(e)))
                return viol, info
            if walk_files(ws) != want:
                viol.append(("relink-changed-content", ""))
            for rel, c in (TREES[cfg["t1"]].items() if cfg["t1"] in TREES else [("", cfg["t1"])]):
                pth = os.path.join(ws, *rel.split("/")) if rel else ws
                k = link_kind(pth, odb, MD5[c], CONTENTS[c])
                if not (k == cfg["link"] or (cfg["link"] == "hardlink" and CONTENTS[c] == b"" and k == "copy")):
                    viol.append((f"wrong-link-type-after-relink/{k}-instead-of-{cfg['link']}", f"{rel}"))
            cache1 = {k: v[0] for k, v in store_snapshot(odb.path).items() if isinstance(k, str)}
            if cache1 != cache0:
                viol.append(("cache-object-bytes-changed", ""))
        finally:
            os.chmod = o_chmod
            if state is not None:
                state.close()
    return viol, info


def recovery_cfgs(kind, link, st):
    out = []
    for t0, t1, mut in (("A", "B", "none"), ("B", "A", "none"), ("A", "A", "edit-a-uncached"), ("N", "P", "none"),
                        ("x", "y", "none")):
        base = {"kind": kind, "link": link, "state": st, "t0": t0, "t1": t1, "mut": mut}
        single = t0 not in TREES
        prior = {} if single else dict(TREES[t0])
        tgt = {} if single else TREES[t1]
        if single:
            victims = [""]
        else:
            victims = sorted(r for r in prior if tgt.get(r) != prior[r] or (r == "a" and mut != "none"))
        for v in victims:
            out.append(dict(base, fault="rm-refused", victim=v))
        for c in sorted(set(tgt.values()) if not single else {t1}):
            for wipe in (False, True):
                out.append(dict(base, fault="object-missing", victim=c, wipe=wipe))
        if kind == "local":
            out.append(dict(base, fault="cache-chmod-refused", victim=""))
    return out


def recovery_case(case):
    res = {"n": 0, "trans": 0, "states": [], "outcomes": set(), "nontrivial": set(), "viol": [], "vac": {}}
    sigs = set()
    for cfg in recovery_cfgs(case["kind"], case["link"], case["state"]):
        viol, info = recovery_exec(cfg)
        res["n"] += 1
        res["trans"] += 4
        d = digest_obj(cfg)
        res["states"].append(d)
        res["nontrivial"].add(d)
        v = res["vac"]
        v["recovery_runs"] = v.get("recovery_runs", 0) + 1
        if info.get("denied"):
            v["refused_removals"] = v.get("refused_removals", 0) + 1
        if cfg["fault"] == "object-missing" and info["first"] not in (None, "ok"):
            v["failed_first_attempts"] = v.get("failed_first_attempts", 0) + 1
        if info.get("chmod_refused"):
            v["chmod_refusals"] = v.get("chmod_refusals", 0) + 1
        res["outcomes"].add(repr((info["first"], sorted(x[0] for x in viol))))
        for sig, detail in viol:
            sig = f"{sig}/{cfg['fault']}" + ("/workspace-wiped" if cfg.get("wipe") else "")
            if sig not in sigs:
                sigs.add(sig)
                res["viol"].append((sig, detail, dict(cfg, recovery=True)))
    res["outcomes"] = sorted(res["outcomes"])
    res["nontrivial"] = sorted(res["nontrivial"])
    res["sample"] = dict(case)
    return res


def run_case(case):
    if case.get("part") == "recovery":
        return recovery_case(case)
    res = {"n": 0, "trans": 0, "states": [], "outcomes": set(), "nontrivial": set(), "viol": [],
           "vac": {"relinked_to_hardlink": 0, "relinked_to_symlink": 0, "other_workspace_runs": 0,
                   "link_records_checked": 0}}
    sigs = set()
    base = case["base"]
    for l2 in L2S:
        for mut in MUTS:
            for other in OTHERS:
                runs = [(a, b, "plain") for a in (False, True)
                        for b in ([None] + (L1S if mut == "none" and other == "none" and l2 != "default" else []))]
                if other == "none" and mut in ("none", "edit-a-uncached") and base["t0"] in TREES:
                    # the workspace spelled with a trailing separator; an ignore filter hiding user files
                    runs += [(a, None, e) for a in (False, True) for e in ("trail", "ignore")]
                for st, l3, env in runs:
                    cfg = dict(base, l2=l2, mut=mut, other=other, state=st, l3=l3, env=env)
                    if env != "plain":
                        res["vac"]["spelling_or_ignore_runs"] = res["vac"].get("spelling_or_ignore_runs", 0) + 1
                    viol, info = one_exec(cfg)
                    res["n"] += 1
                    res["trans"] += 4 + (1 if l3 else 0)
                    if l3:
                        res["vac"]["third_link_type_runs"] = res["vac"].get("third_link_type_runs", 0) + 1
                    d = digest_obj(cfg)
                    res["states"].append(d)
                    res["nontrivial"].add(d)
                    if l2 == "hardlink":
                        res["vac"]["relinked_to_hardlink"] += 1
                    if l2 == "symlink":
                        res["vac"]["relinked_to_symlink"] += 1
                    if other != "none":
                        res["vac"]["other_workspace_runs"] += 1
                    if st:
                        res["vac"]["link_records_checked"] += 1
                    res["outcomes"].add(repr((sorted(v[0] for v in viol), sorted(set((info.get("kinds") or {}).values())))))
                    for sig, detail in viol:
                        if sig not in sigs:
                            sigs.add(sig)
                            res["viol"].append((sig, detail, cfg))
    if base["t0"] == "A" and base["t1"] == "A" and base["l1"] == "copy":
        for st in (False, True):
            for sig, detail in bulk_exec(base["kind"], st):
                res["viol"].append((sig, detail, {"bulk": True, "kind": base["kind"], "state": st}))
            res["n"] += 1
            res["trans"] += 3
            res["vac"]["bulk_runs"] = res["vac"].get("bulk_runs", 0) + 1
    res["outcomes"] = sorted(res["outcomes"])
    res["nontrivial"] = sorted(res["nontrivial"])
    res["sample"] = dict(base, l2=L2S, mut=MUTS, other=OTHERS, state=[False, True])
    return res


def replay(case):
    if case.get("bulk"):
        return bulk_exec(case["kind"], case["state"])
    if case.get("recovery"):
        cfg = {k: v for k, v in case.items() if k != "recovery"}
        return [(f"{s_}/{cfg['fault']}" + ("/workspace-wiped" if cfg.get("wipe") else ""), d_)
                for s_, d_ in recovery_exec(cfg)[0]]
    return one_exec(case)[0]


def run(ctx):
    ctx.rule = (
        "E2: prior workspace = checkout of tree t0 in {A, B} (or of a single file object x / y / empty) with existing link type {copy, hardlink, symlink} "
        "followed by a kind-preserving user mutation {none, delete, edit to uncached / cached content, untracked "
        "file, re-typed copy}; then target t1 in {A, B} under configured link type {copy, hardlink, symlink, "
        "default} x {LocalHashFileDB, HashFileDB} x state on/off x another workspace {none, hardlinked, symlinked} "
        "to the same cache; sequence checkout(force), checkout, checkout(relink) (and, without mutation / other "
        "workspace, a further relinking checkout to each third link type); tree A has duplicate and empty "
        "contents; recovery part: the removal of each workspace path the checkout has to remove or replace refused "
        "(PermissionError) during one forced checkout, each target object missing from the cache during the first "
        "attempt (restored afterwards; partial workspace kept or wiped by the user), a cache whose objects are writable "
        "and whose file system refuses chmod - then the same sequence; every execution is non-trivial"
    )
    ctx.bound = {"trees": {k: TREES[k] for k in ("A", "B")}, "existing": L1S, "configured": L2S,
                 "mutations": MUTS, "other_workspace": OTHERS}
    ctx.assumptions = [
        "a hard link to an empty object is a plain empty file (the library's documented exception)",
        "default link type: reflink is unsupported on this file system, so the expected type is copy",
        "the link record is compared with a fresh get_mtime_and_size() of the resulting workspace",
    ]
    ctx.require("relinked_to_hardlink", "relinked_to_symlink", "other_workspace_runs", "link_records_checked", "third_link_type_runs", "spelling_or_ignore_runs", "bulk_runs",
                "recovery_runs", "refused_removals", "failed_first_attempts", "chmod_refusals")
    cs = []
    for kind in ("local", "base"):
        for t0, t1 in (("A", "A"), ("A", "B"), ("B", "A"), ("B", "B"), ("x", "x"), ("x", "y"), ("e", "x"),
                       ("N", "P"), ("P", "P")):
            for l1 in L1S:
                cs.append({"base": {"kind": kind, "t0": t0, "t1": t1, "l1": l1}})
    for kind in ("local", "base"):
        for link in L1S:
            for st in (False, True):
                cs.append({"part": "recovery", "kind": kind, "link": link, "state": st})
    ctx.run_cases("run_case", cs, chunksize=1, det=2)
